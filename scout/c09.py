import warnings, sys, json, collections, re
warnings.simplefilter('ignore')
sys.path.insert(0,'/repo')
import stdnum.util
from stdnum.util import get_number_modules, get_cc_module
from stdnum.exceptions import ValidationError
from stdnum.eu import vat as euvat
from stdnum import vatin
corpus=json.load(open('corpus.json'))
def oc(f,*a):
    try: return ('ok',f(*a))
    except ValidationError as e: return ('verr',None)
    except Exception as e: return ('EXC',type(e).__name__)
bad=collections.Counter(); ex={}
n=0
for cc in sorted(euvat.MEMBER_STATES|{'el'}):
    mcc={'el':'gr','xi':'gb'}.get(cc,cc)
    mod=get_cc_module(mcc,'vat')
    seeds=corpus.get(mod.__name__,[])[:20]
    for s in seeds:
        v=mod.validate(s)
        for x in {cc.upper()+v, cc.upper()+' '+s, cc+v, s, v, cc.upper()+v[:-1], cc.upper()+cc.upper()+v}:
            n+=1
            a=oc(euvat.validate,x); b=oc(mod.validate,x)
            cx=stdnum.util.clean(x,'').upper().strip()[:2]
            if cx.lower()==cc:
                if a[0]!=b[0]: bad['acc-mismatch',cc]+=1; ex[('acc',cc)]=(x,a,b)
                elif a[0]=='ok' and not (a[1].startswith(cc.upper()) and a[1] in (b[1],cc.upper()+b[1])): bad['res',cc]+=1; ex[('res',cc)]=(x,a,b)
            w=oc(vatin.validate,x)
            if a[0]=='ok' and w!=a: bad['vatin',cc]+=1; ex[('vatin',cc)]=(x,a,w)
            g=set(euvat.guess_country(x)); exp={c for c in euvat.MEMBER_STATES if get_cc_module({'xi':'gb'}.get(c,c),'vat').is_valid(x)}
            if g!=exp: bad['guess',cc]+=1
print(n,dict(bad)); 
for k,v in ex.items(): print(k,v)
