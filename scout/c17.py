import warnings, sys, json, collections, re
warnings.simplefilter('ignore')
sys.path.insert(0,'/repo')
import stdnum.util
stdnum.util._digits_re = re.compile(r"^[0-9]+\Z")
from stdnum.util import get_number_modules
mods = {m.__name__: m for m in get_number_modules()}
corpus=json.load(open('corpus.json'))
D='0123456789'; U='ABCDEFGHIJKLMNOPQRSTUVWXYZ'
span_all=lambda v:range(len(v))
table={
 'stdnum.isbn':(span_all,True,lambda v:len(v)==10), 'stdnum.isbn#13':(span_all,False,lambda v:len(v)==13),
 'stdnum.ean':(span_all,False,None),'stdnum.issn':(span_all,True,None),'stdnum.ismn':(span_all,False,None),
 'stdnum.imei':(span_all,False,lambda v:len(v)==15),'stdnum.isni':(span_all,True,None),'stdnum.iban':(span_all,True,None),
 'stdnum.lei':(span_all,True,None),'stdnum.iso11649':(span_all,True,None),'stdnum.grid':(span_all,False,None),
 'stdnum.ca.sin':(span_all,False,None),'stdnum.fr.siren':(span_all,False,None),'stdnum.fr.siret':(span_all,False,lambda v:not v.startswith('356000000')),
 'stdnum.il.idnr':(span_all,False,None),'stdnum.il.hp':(span_all,False,None),'stdnum.se.orgnr':(span_all,False,None),
 'stdnum.se.personnummer':(lambda v:[i for i in range(len(v)-11,len(v)) if i>=0],False,None),
 'stdnum.in_.aadhaar':(span_all,True,None),'stdnum.in_.vid':(span_all,True,None),'stdnum.hr.oib':(span_all,False,None),
 'stdnum.de.idnr':(span_all,False,None),'stdnum.de.vat':(span_all,False,None),'stdnum.rs.pib':(span_all,False,None),
 'stdnum.it.iva':(span_all,False,None),'stdnum.gr.amka':(span_all,False,None),'stdnum.gn.nifp':(span_all,False,None),
 'stdnum.za.idnr':(span_all,False,None),'stdnum.za.tin':(span_all,False,None),'stdnum.luhn':(span_all,False,None),
 'stdnum.verhoeff':(span_all,True,None),'stdnum.damm':(span_all,True,None),
 'stdnum.iso7064.mod_11_2':(span_all,True,None),'stdnum.iso7064.mod_11_10':(span_all,False,None),'stdnum.iso7064.mod_37_2':(span_all,True,None),
 'stdnum.iso7064.mod_37_36':(span_all,False,None),'stdnum.iso7064.mod_97_10':(span_all,True,None),
 'stdnum.do.cedula':(span_all,False,None),'stdnum.ca.bn':(lambda v:range(9),False,None),'stdnum.no.kontonr':(span_all,False,lambda v:len(v)==7),
}
n=0
for key,(span,transp,guard) in table.items():
    name=key.split('#')[0]; m=mods[name]
    vs=set()
    for s in corpus[name][:40]:
        try: vs.add(m.validate(s))
        except Exception: pass
    bad=[]; cnt=0
    for v in sorted(vs):
        if guard and not guard(v): continue
        cnt+=1
        for i in span(v):
            ch=v[i]
            cls=D if ch in D else (U if ch in U else None)
            if not cls: continue
            for c in cls:
                if c==ch: continue
                n+=1
                w=v[:i]+c+v[i+1:]
                if m.is_valid(w): bad.append(('sub',v,w))
        if transp:
            for i in range(len(v)-1):
                a,b=v[i],v[i+1]
                if a!=b and ((a in D and b in D)):
                    n+=1
                    w=v[:i]+b+a+v[i+2:]
                    if m.is_valid(w): bad.append(('swap',v,w))
    print(key,cnt,len(bad),bad[:3])
print(n)
