import warnings, sys, json, collections, urllib.parse, importlib.machinery, importlib.util, io, time
warnings.simplefilter('ignore')
sys.path.insert(0,'/repo')
_out=sys.stdout
loader=importlib.machinery.SourceFileLoader('stdnum_wsgi','/repo/online_check/stdnum.wsgi')
spec=importlib.util.spec_from_loader('stdnum_wsgi',loader)
w=importlib.util.module_from_spec(spec); loader.exec_module(w)
sys.stdout=_out
corpus=json.load(open('corpus.json'))
def call(q, ajax):
    env={'DOCUMENT_ROOT':'/repo/online_check','SCRIPT_NAME':'/stdnum.wsgi','QUERY_STRING':q}
    if ajax: env['HTTP_X_REQUESTED_WITH']='XMLHttpRequest'
    st=[]
    try:
        body=b''.join(w.application(env, lambda s,h: st.append((s,h))))
        return st[0][0], body
    except Exception as e:
        return 'EXC '+type(e).__name__+': '+str(e)[:80], b''
bad=collections.defaultdict(list)
t=time.time(); n=0
for name,seeds in sorted(corpus.items()):
    for s in seeds[:2]:
        for ajax in (False,True):
            n+=1
            st,body=call('number='+urllib.parse.quote(s), ajax)
            if st!='200 OK':
                bad[name].append((s,ajax,st))
print(n, time.time()-t)
for k,v in bad.items():
    print(k, v[:2])
