import sys, json, warnings, collections
warnings.simplefilter('ignore')
sys.path.insert(0,'/repo')
import importlib
from stdnum.exceptions import ValidationError
corpus=json.load(open('corpus.json'))
M=lambda n: importlib.import_module('stdnum.'+n)
def valid_set(name, extra_depth=True):
    m=M(name); vs=set()
    for s in corpus['stdnum.'+name][:25]:
        try: v=m.validate(s)
        except Exception: continue
        vs.add(v)
        if extra_depth:
            L=len(v)
            for i in range(L):
                if not v[i].isdigit(): continue
                for c in '0123456789':
                    w=v[:i]+c+v[i+1:]
                    if m.is_valid(w): vs.add(m.validate(w)); continue
                    for j in range(L):
                        if j==i: continue
                        for c2 in '0123456789X':
                            w2=w[:j]+c2+w[j+1:]
                            if m.is_valid(w2): vs.add(m.validate(w2)); break
    return sorted(vs)
def spellings(name,v):
    m=M(name); out={v}
    if hasattr(m,'format'):
        try: out.add(m.format(v))
        except Exception: pass
    out.add(' '.join(v[i:i+4] for i in range(0,len(v),4)))
    out.add('-'.join(v[i:i+3] for i in range(0,len(v),3)))
    return out
bad=collections.Counter(); ex={}
def rec(k,*d):
    bad[k]+=1; ex.setdefault(k,d)
def rel(src,fn,tgt,ident=None,inv=None,args=()):
    s=M(src); t=M(tgt); n=0
    for v in valid_set(src):
        base=None
        for x in spellings(src,v):
            if not s.is_valid(x): continue
            n+=1
            try: r=getattr(s,fn)(x,*args)
            except ValidationError as e: rec((src,fn,'verr'),x,type(e).__name__); continue
            except Exception as e: rec((src,fn,'EXC'),x,repr(e)[:60]); continue
            if r is None: continue
            try: tv=t.validate(r)
            except Exception as e: rec((src,fn,'target-rejects'),x,r,type(e).__name__); continue
            if ident and not ident(v,tv): rec((src,fn,'identity'),x,r,tv)
            if inv:
                try:
                    back=inv(r)
                    if s.validate(back)!=v: rec((src,fn,'inverse'),x,r,back)
                except Exception as e: rec((src,fn,'inverse-raises'),x,r,repr(e)[:50])
            if base is None: base=tv
            elif base!=tv: rec((src,fn,'spelling-dependent'),x,tv,base)
    print(src,fn,n)
isbn=M('isbn')
rel('isbn','to_isbn13','isbn',lambda v,t: t[-10:-1]==v[-10:-1] if len(v)==10 else t==v, lambda r: isbn.to_isbn10(r) if isbn.compact(r).startswith('978') else r)
rel('ismn','to_ismn13','ismn',lambda v,t:t[-9:]==v[-9:])
rel('issn','to_ean','ean',lambda v,t:t[3:10]==v[:7])
rel('issn','to_ean','ean',lambda v,t:t[3:10]==v[:7],args=('13',))
rel('cusip','to_isin','isin',lambda v,t:t[2:11]==v)
rel('gb.sedol','to_isin','isin',lambda v,t:t[2:11]=='00'+v)
rel('de.wkn','to_isin','isin',lambda v,t:t[2:11]=='000'+v)
rel('es.ccc','to_iban','iban',lambda v,t:t[4:]==v, lambda r: M('es.iban').to_ccc(r))
rel('es.ccc','to_iban','es.iban',lambda v,t:t[4:]==v)
rel('no.kontonr','to_iban','iban',lambda v,t:t[4:].endswith(v), lambda r: M('no.iban').to_kontonr(r))
rel('au.acn','to_abn','au.abn',lambda v,t:t[2:]==v)
rel('fr.siret','to_siren','fr.siren',lambda v,t:v.startswith(t))
rel('fr.siren','to_tva','fr.tva',lambda v,t:t.endswith(v))
rel('fr.siret','to_tva','fr.tva',lambda v,t:t[-9:]==v[:9])
rel('pe.cui','to_ruc','pe.ruc',lambda v,t:t[2:10]==v[:8], lambda r: M('pe.ruc').to_dni(r))
rel('in_.gstin','to_pan','in_.pan',lambda v,t:v[2:12]==t)
rel('it.aic','to_base32','it.aic',lambda v,t:t==v, lambda r: M('it.aic').from_base32(r))
rel('ie.vat','convert','ie.vat',None)
rel('es.iban','to_ccc','es.ccc',lambda v,t:v[4:]==t)
rel('no.iban','to_kontonr','no.kontonr',lambda v,t:v.endswith(t))
rel('be.iban','to_bic','bic',None)
rel('cz.bankaccount','to_bic','bic',None)
for k,v in sorted(bad.items(),key=str): print(k,v,ex[k])
