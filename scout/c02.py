import warnings, sys, json, collections, inspect, traceback, re
warnings.simplefilter('ignore')
sys.path.insert(0,'/repo')
import stdnum.util
stdnum.util._digits_re = re.compile(r"^[0-9]+\Z")
from stdnum.util import get_number_modules
from stdnum.exceptions import ValidationError
mods = {m.__name__: m for m in get_number_modules()}
corpus=json.load(open('corpus.json'))
H=['\n','\t','\r','\x00','\x1f','\x0b','\x1c','\x85','\xa0',' ',' ','-','.','/',':',',',"'",'*','(',')',
   '٣','²','⑱','½','ⅷ','᭓','３','𝟗','ß','ı','ſ','ŉ','ﬁ','İ','K','Ä','Ñ','я','Α','😴','́','0','9','A','z','X','%','–','．']
def outcome(f,*a,**k):
    try:
        r=f(*a,**k)
        return ('ok',r)
    except ValidationError as e:
        return ('verr',type(e).__name__)
    except Exception as e:
        return ('EXC',type(e).__name__+': '+str(e)[:60])
bad=collections.defaultdict(list)
n=0
for name,m in mods.items():
    seeds=corpus[name][:8]
    inputs=set()
    for s in seeds:
        try: v=m.validate(s)
        except Exception: continue
        for base in {s,v}:
            inputs.add(base)
            for i in range(len(base)+1):
                for c in H:
                    inputs.add(base[:i]+c+base[i:])
                    if i<len(base): inputs.add(base[:i]+c+base[i+1:])
            for i in range(len(base)):
                inputs.add(base[:i]+base[i+1:])
            inputs.add(base.lower()); inputs.add(base.upper()); inputs.add(base.swapcase())
    groups=collections.defaultdict(dict)
    for x in inputs:
        n+=1
        o=outcome(m.validate,x)
        if o[0]=='ok' and isinstance(o[1],str):
            v=o[1]
            o2=outcome(m.validate,v)
            if o2!=o:
                bad[name].append(('C02-refeed',x,v,o2))
            if v!=v.strip():
                bad[name].append(('C02-ws',x,v))
            if not v.isascii():
                bad[name].append(('C15',x,v))
            if hasattr(m,'format'):
                f=outcome(m.format,x)
                if f[0]!='ok': bad[name].append(('C04-fmt-raises',x,f))
                else:
                    vf=outcome(m.validate,f[1])
                    if vf!=o: bad[name].append(('C04-valfmt',x,f[1],vf,v))
                    ff=outcome(m.format,v)
                    if ff!=f: bad[name].append(('C04-fmtindep',x,f[1],ff))
        if hasattr(m,'compact'):
            c=outcome(m.compact,x)
            if c[0]=='ok':
                key=(o[0]=='ok', o[1] if o[0]=='ok' else None)
                groups[c[1]].setdefault(key,x)
    for k,g in groups.items():
        if len(g)>1:
            bad[name].append(('C03',k,dict((str(a),b) for a,b in g.items())))
print('evals',n)
tot=collections.Counter()
for name,l in sorted(bad.items()):
    print(name,len(l), collections.Counter(k[0] for k in l))
    seen=set()
    for k in l:
        tot[k[0]]+=1
        key=(k[0])
        if key in seen: continue
        seen.add(key)
        print('    ',repr(k)[:260])
print(tot)
