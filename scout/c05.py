import warnings, sys, json, collections, inspect, re
warnings.simplefilter('ignore')
sys.path.insert(0,'/repo')
import stdnum.util
stdnum.util._digits_re = re.compile(r"^[0-9]+\Z")
from stdnum.util import get_number_modules
from stdnum.exceptions import ValidationError
mods = {m.__name__: m for m in get_number_modules()}
corpus=json.load(open('corpus.json'))
shapes={
 'last1': lambda v:(v[:-1], v[-1:]),
 'last2': lambda v:(v[:-2], v[-2:]),
 'full_last1': lambda v:(v, v[-1:]),
 'full_last2': lambda v:(v, v[-2:]),
 'first1': lambda v:(v[1:], v[:1]),
 'first2': lambda v:(v[2:], v[:2]),
 'full_first2': lambda v:(v, v[:2]),
 'iban': lambda v:(v, v[2:4]),
}
for name,m in sorted(mods.items()):
    fns=[n for n in dir(m) if n.startswith('calc_check') or n=='calc_checksum' or n.startswith('calc_') ]
    fns=[n for n in fns if inspect.isfunction(getattr(m,n)) and getattr(m,n).__module__==name]
    if not fns: continue
    vs=[]
    for s in corpus[name]:
        try: vs.append(m.validate(s))
        except Exception: pass
    vs=sorted(set(vs))
    for fn in fns:
        f=getattr(m,fn)
        sig=str(inspect.signature(f))
        res={}
        for sh,g in shapes.items():
            ok=0; tot=0
            for v in vs:
                p,c=g(v)
                try:
                    r=f(p)
                except Exception as e:
                    r=('EXC',type(e).__name__)
                tot+=1
                if r==c: ok+=1
            res[sh]=ok
        best=max(res,key=res.get)
        print(f'{name:32s} {fn:28s}{sig:28s} n={len(vs):3d} best={best}:{res[best]}  ', {k:v for k,v in res.items() if v and k!=best})
