import warnings, sys, json, collections, inspect, re, datetime
warnings.simplefilter('ignore')
sys.path.insert(0,'/repo')
import stdnum.util
stdnum.util._digits_re = re.compile(r"^[0-9]+\Z")
from stdnum.util import get_number_modules
from stdnum.exceptions import ValidationError
mods = {m.__name__: m for m in get_number_modules()}
corpus=json.load(open('corpus.json'))
def getters(m):
    out=[]
    for n,f in inspect.getmembers(m, inspect.isfunction):
        if n.startswith('_'): continue
        if not (n.startswith('get_') or n in ('info','split') or n.endswith('_type') or n.startswith('guess_')): continue
        sig=inspect.signature(f)
        args=[p.name for p in sig.parameters.values() if p.default is p.empty]
        if args==['number']: out.append((n,f))
    return out
D='0123456789'
bad=collections.defaultdict(list); n=0; kinds=collections.defaultdict(collections.Counter)
for name,m in sorted(mods.items()):
    gs=getters(m)
    if not gs: continue
    valid=set()
    for s in corpus[name][:30]:
        try: v=m.validate(s)
        except Exception: continue
        valid.add(v); valid.add(s)
        # valid neighbours by 1 and 2 substitutions (digits)
        L=len(v)
        for i in range(L):
            if v[i] not in D: continue
            for c in D:
                if c==v[i]: continue
                w=v[:i]+c+v[i+1:]
                if m.is_valid(w): valid.add(w); continue
                for j in range(max(0,L-2),L):
                    if j==i: continue
                    for c2 in D+'XKABCDEFGHJ':
                        w2=w[:j]+c2+w[j+1:]
                        if m.is_valid(w2): valid.add(w2)
    for v in valid:
        for gn,g in gs:
            n+=1
            try:
                r=g(v); kinds[name+'.'+gn][type(r).__name__]+=1
            except ValidationError as e:
                kinds[name+'.'+gn]['VERR']+=1
            except Exception as e:
                bad[name+'.'+gn].append((v,type(e).__name__+': '+str(e)[:60]))
print(n)
for k,c in sorted(kinds.items()): print(k,dict(c), len(bad.get(k,[])))
for k,l in bad.items(): print(k,len(l),l[:3])
