"""Scouting probe: do depth-2 histories with a mutate-result event catch (a) numdb._find returning the
registry's own dict, (b) numdb.get keyed by base name?  Mutants are applied in memory after each re-import."""
import sys, importlib, warnings
warnings.simplefilter('ignore')
sys.path.insert(0,'/repo')
def purge():
    for k in [k for k in sys.modules if k=='stdnum' or k.startswith('stdnum.')]: del sys.modules[k]
def call(path,*a):
    mod,fn=path.rsplit('.',1); m=importlib.import_module(mod)
    try: return ('ok',getattr(m,fn)(*a))
    except Exception as e: return ('exc',type(e).__name__)
def mutate(x):
    if isinstance(x,dict):
        for v in list(x.values()): mutate(v)
        for k in list(x): x[k]='EVIL'
        x['__junk__']=1
    elif isinstance(x,list):
        for v in x: mutate(v)
        x.append('EVIL')
    elif isinstance(x,tuple):
        for v in x: mutate(v)
ops=[('stdnum.be.iban.info','BE31435411161155'),('stdnum.cz.bankaccount.info','34278-0727558021/0100'),('stdnum.nz.bankaccount.info','01-902-0068389-00'),
     ('stdnum.at.postleitzahl.info','5090'),('stdnum.isbn.split','9789024538270'),('stdnum.imsi.info','429011234567890'),('stdnum.numdb.get','isil')]
def mutant_alias():
    nd=importlib.import_module('stdnum.numdb')
    def _find(number,prefixes):
        if not number: return []
        part=number; properties={}; nxt=[]
        for length,low,high,props,children in prefixes:
            if len(part)>=length and low<=part[:length]<=high:
                if length<len(part): part=part[:length]; properties={}; nxt=[]
                properties = props if not properties else dict(properties,**props)   # alias on first match
                nxt.extend(children)
        return [(part,properties)]+_find(number[len(part):],nxt)
    nd.NumDB._find=staticmethod(_find)
def mutant_key():
    nd=importlib.import_module('stdnum.numdb'); orig=nd.get
    def get(name):
        key=name.split('/')[-1]
        if key not in nd._open_databases:
            import codecs
            with codecs.getreader('utf-8')(nd._get_resource_stream(name+'.dat')) as fp: nd._open_databases[key]=nd.read(fp)
        return nd._open_databases[key]
    nd.get=get
for label,mut in (('unchanged',lambda:None),('alias',mutant_alias),('basename-key',mutant_key)):
    exp={}
    for op in ops:
        purge(); mut(); r=call(*op); exp[op]=repr(r) if op[0]!='stdnum.numdb.get' else 'db'
    bad=[]; n=0
    for a in ops:
        for b in ops:
            for m in (False,True):
                purge(); mut(); ra=call(*a)
                if m: mutate(ra[1]) if ra[0]=='ok' and not hasattr(ra[1],'prefixes') else None
                rb=call(*b); n+=1
                ob=repr(rb) if b[0]!='stdnum.numdb.get' else 'db'
                if ob!=exp[b]: bad.append((a[0],'mutate' if m else '',b[0]))
    print(label,'histories',n,'violations',len(bad),bad[:3])
