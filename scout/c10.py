import sys, io, itertools, time, re, collections
sys.path.insert(0,'/repo')
from stdnum import numdb
prop_re=re.compile(r'([0-9a-zA-Z_-]+)="([^"]*)"')
# ---- reference model
def ref_parse(text):
    root=[]; stack=[(-1,root)]
    for line in text.splitlines():
        if not line.strip() or line.startswith('#'): continue
        indent=len(line)-len(line.lstrip(' '))
        body=line.strip().split(None,1)
        ranges=[]
        for r in body[0].split(','):
            lo,_,hi=r.partition('-'); ranges.append((lo,hi or lo))
        props=dict(prop_re.findall(body[1] if len(body)>1 else ''))
        node=(ranges,props,[])
        while stack[-1][0]>=indent: stack.pop()
        stack[-1][1].append(node); stack.append((indent,node[2]))
    return root
def ref_info(nodes,number):
    if not number: return []
    matches=[]
    for ranges,props,children in nodes:
        for lo,hi in ranges:
            L=len(lo)
            if L<=len(number) and lo<=number[:L]<=hi: matches.append((L,props,children))
    if not matches: return [(number,{})]
    L=min(m[0] for m in matches)
    props={}; kids=[]
    for l,p,c in matches:
        if l==L: props.update(p); kids.extend(c)
    return [(number[:L],props)]+ref_info(kids,number[L:])
# ---- enumerate small files
A='012'
def ranges_pool():
    ends=[a for a in A]+[a+b for a in A for b in A]
    single=[(x,x) for x in ends]
    pairs=[(x,y) for x in ends for y in ends if len(x)==len(y) and x<y]
    return single+pairs
R=ranges_pool()
def rtxt(r): return r[0] if r[0]==r[1] else r[0]+'-'+r[1]
P=['','a="1"','a="2"','b="3"','a="1" b="3"']
# reduced pools for quick
R1=[('0','0'),('0','1'),('1','2'),('00','00'),('00','11'),('01','20'),('2','2'),('10','22')]
lines1=[rtxt(r)+(' '+p if p else '') for r in R1 for p in P[:4]]
multi=[rtxt(a)+','+rtxt(b)+' a="2"' for a in R1[:4] for b in R1[4:]]
L=lines1+multi
queries=['']+[''.join(t) for n in range(1,5) for t in itertools.product('0123',repeat=n)]
print('line pool',len(L),'queries',len(queries))
t=time.time(); files=0; lookups=0; mism=0
def check(text):
    global files,lookups,mism
    files+=1
    db=numdb.read(io.StringIO(text)); ref=ref_parse(text)
    for q in queries:
        lookups+=1
        a=db.info(q); b=ref_info(ref,q)
        if a!=b:
            mism+=1
            if mism<5: print('MISMATCH',repr(text),q,a,b)
# shape 1: two top-level lines, first has one child
kids=[' '+l for l in L[::3]]
for l1 in L[::2]:
    for k in kids[::2]:
        for l2 in L[::5]:
            check(l1+'\n'+k+'\n'+l2+'\n')
print(files,lookups,mism,round(time.time()-t,1))
# test file
text=open('/repo/tests/numdb-test.dat').read()
check(text); print(mism)
