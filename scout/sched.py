import sys, threading, time, itertools
sys.path.insert(0,'/repo')
import stdnum.numdb as numdb

class Sched:
    """Cooperative scheduler: threads stop at line events in watched code objects; a choice list decides who runs."""
    def __init__(self, watched, choices):
        self.watched=watched; self.choices=list(choices); self.pos=0
        self.sems={}; self.done=set(); self.trace=[]; self.points=[]   # per point: list of enabled
        self.ctl=threading.Semaphore(0); self.waiting={}
    def tracer(self, tid):
        def local(frame,event,arg):
            if event=='line':
                self.waiting[tid]=(frame.f_code.co_name, frame.f_lineno)
                self.ctl.release(); self.sems[tid].acquire()
            return local
        def glob(frame,event,arg):
            if frame.f_code in self.watched: return local
            return None
        return glob
    def run(self, bodies):
        results={}
        def wrap(tid,body):
            self.sems[tid].acquire()
            sys.settrace(self.tracer(tid))
            try: results[tid]=body()
            except BaseException as e: results[tid]=('EXC',repr(e))
            finally:
                sys.settrace(None); self.done.add(tid); self.waiting.pop(tid,None); self.ctl.release()
        ths=[]
        for tid,b in enumerate(bodies):
            self.sems[tid]=threading.Semaphore(0)
            t=threading.Thread(target=wrap,args=(tid,b)); t.start(); ths.append(t)
        # start all threads: let each run to its first point
        for tid in range(len(bodies)):
            self.sems[tid].release(); self.ctl.acquire()
        cur=0
        while len(self.done)<len(bodies):
            enabled=[t for t in range(len(bodies)) if t not in self.done]
            # canonical order: current first
            order=([cur] if cur in enabled else [])+[t for t in enabled if t!=cur]
            c=self.choices[self.pos] if self.pos<len(self.choices) else 0
            self.pos+=1
            self.points.append((len(order), cur in enabled))
            nxt=order[c]; self.trace.append(nxt); cur=nxt
            self.sems[nxt].release(); self.ctl.acquire()
        for t in ths: t.join()
        return results

def explore(make_bodies, watched, bound):
    n=0; outcomes={}
    stack=[[]]
    while stack:
        prefix=stack.pop()
        numdb._open_databases.clear()
        s=Sched(watched,prefix); res=s.run(make_bodies()); n+=1
        key=repr(sorted((k,[ (p,sorted(d.items())) for p,d in v]) for k,v in res.items()))
        outcomes[key]=outcomes.get(key,0)+1
        # count preemptions in prefix
        pre=0
        for i,(ne,curen) in enumerate(s.points):
            c=s.choices[i] if i<len(s.choices) else 0
            if i>=len(prefix):
                for alt in range(1,ne):
                    cost=pre+(1 if curen else 0)
                    if cost<=bound:
                        stack.append(s.trace_choices(i)+[alt] if False else [ (s.choices[j] if j<len(s.choices) else 0) for j in range(i)]+[alt])
            if c!=0 and curen: pre+=1
    return n,outcomes
watched={numdb.get.__code__}
def mk():
    return [lambda: numdb.get('isil').info('NL$'), lambda: numdb.get('isil').info('DE$')]
t=time.time()
for b in (0,1,2,3):
    n,o=explore(mk,watched,b); print('bound',b,'execs',n,'outcomes',len(o), round(time.time()-t,2))
