import warnings, re, ast, glob, sys, json, io, tokenize, collections
warnings.simplefilter('ignore')
sys.path.insert(0,'/repo')
from stdnum.util import get_number_modules
mods = {m.__name__: m for m in get_number_modules()}

def literals(path):
    txt = open(path, encoding='utf-8').read()
    out=set()
    # string literals: crude regex on quotes
    for m in re.finditer(r"'([^'\n\\]{1,80})'|\"([^\"\n\\]{1,80})\"", txt):
        out.add(m.group(1) or m.group(2))
    # also multi-line blocks of numbers in doctests: lines starting with '... ' containing bare numbers
    for line in txt.splitlines():
        s=line.strip()
        if s.startswith('... '):
            s=s[4:].strip()
            if s and not any(k in s for k in ('=','(',')','import','for ','if ','print')):
                out.add(s)
    return out

def modfile(name):
    return '/repo/'+name.replace('.','/')+'.py'
def testfile(name):
    return '/repo/tests/test_'+name.split('.',1)[1].replace('.','_').replace('in__','in_').replace('is__','is_')+'.doctest'
import os
corpus={}
for name,m in mods.items():
    lits=set()
    for p in (modfile(name), testfile(name)):
        if os.path.exists(p): lits|=literals(p)
    valid=sorted(x for x in lits if m.is_valid(x))
    corpus[name]=valid
json.dump(corpus, open('corpus.json','w'), indent=0, ensure_ascii=False)
cnt=collections.Counter(len(v) for v in corpus.values())
print(sorted((len(v),k) for k,v in corpus.items())[:40])
print(sum(len(v) for v in corpus.values()))
