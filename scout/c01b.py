import warnings, sys, json, collections, inspect, traceback
warnings.simplefilter('ignore')
sys.path.insert(0,'/repo')
from stdnum.util import get_number_modules
from stdnum.exceptions import ValidationError
import stdnum.util, re
stdnum.util._digits_re = re.compile(r"^[0-9]+\Z")
mods = {m.__name__: m for m in get_number_modules()}
corpus=json.load(open('corpus.json'))
H=['\n','\t','\r','\x00','\x1f','\x0b','\x1c','\x85','\xa0',' ',' ','-','.','/',':',',',"'",'*','(',')',
   '٣','²','⑱','½','ⅷ','᭓','３','𝟗','ß','ı','ſ','ŉ','ﬁ','İ','K','Ä','Ñ','я','Α','😴','\ud800','́','0','9','A','z','X','%']
nonstr=[None,0,18,1.5,b'123',[],['1','2'],('1','2','3'),{},object(),True,False,12345678903,b'',{'a':1}, range(3), 10**30]
def outcome(f,*a,**k):
    try:
        r=f(*a,**k)
        return ('ok',r)
    except ValidationError as e:
        return ('verr',type(e).__name__)
    except Exception as e:
        return ('EXC',type(e).__name__+': '+str(e)[:60])
bad=collections.defaultdict(list)
n=0
for name,m in mods.items():
    seeds=corpus[name][:6]
    inputs=set(['']+H+[a+b for a in H[:12] for b in H[:12]])
    for s in seeds:
        try: v=m.validate(s)
        except Exception: continue
        for base in {s,v}:
            for i in range(len(base)+1):
                for c in H:
                    inputs.add(base[:i]+c+base[i:])
                    if i<len(base): inputs.add(base[:i]+c+base[i+1:])
            for i in range(len(base)):
                inputs.add(base[:i]+base[i+1:])
            inputs.add(base.lower()); inputs.add(base*50)
    for x in list(inputs)+nonstr:
        n+=1
        o=outcome(m.validate,x)
        if o[0]=='EXC':
            bad[name].append(('validate',x if isinstance(x,str) else repr(x),o[1]))
        elif o[0]=='ok' and not isinstance(o[1],str):
            bad[name].append(('validate-nonstr',repr(x),repr(o[1])))
        o2=outcome(m.is_valid,x)
        if o2[0]!='ok' or o2[1] not in (True,False) or type(o2[1]) is not bool:
            bad[name].append(('is_valid',x if isinstance(x,str) else repr(x),o2))
        elif o2[1]!=(o[0]=='ok'):
            bad[name].append(('mismatch',x if isinstance(x,str) else repr(x),o,o2))
print('evals',n)
for name,l in sorted(bad.items()):
    kinds=collections.Counter((k[0],k[2] if k[0]!='mismatch' else '') for k in l)
    print(name,len(l))
    seen=set()
    for k in l:
        key=(k[0],str(k[2])[:30])
        if key in seen: continue
        seen.add(key)
        print('    ',repr(k)[:200])
