import sys, re, glob, collections
sys.path.insert(0,'/repo')
from stdnum import numdb
line_re=re.compile(r'^( *)(\S+)(?:\s+(.*))?$')
for path in sorted(glob.glob('/repo/stdnum/**/*.dat', recursive=True)):
    issues=collections.Counter(); ex={}
    indents=[0]
    prev_indent=0
    n=0
    for ln,line in enumerate(open(path,encoding='utf-8'),1):
        if line[0]=='#' or line.strip()=='': continue
        n+=1
        line=line.rstrip('\n')
        m=numdb._line_re.search(line)
        if not m: issues['nomatch']+=1; ex.setdefault('nomatch',(ln,line)); continue
        indent=len(m.group('indent')); ranges=m.group('ranges'); props=m.group('props')
        # full consumption of props
        rest=numdb._prop_re.sub('',props).strip()
        if rest: issues['props-unparsed']+=1; ex.setdefault('props-unparsed',(ln,line[:100],rest[:50]))
        keys=[k for k,v in numdb._prop_re.findall(props)]
        if len(keys)!=len(set(keys)): issues['dup-prop']+=1; ex.setdefault('dup-prop',(ln,line[:100]))
        for r in ranges.split(','):
            if '-' in r:
                lo,hi=r.split('-')
                if len(lo)!=len(hi): issues['len-mismatch']+=1; ex.setdefault('len-mismatch',(ln,line[:100]))
                elif lo>hi: issues['lo>hi']+=1; ex.setdefault('lo>hi',(ln,line[:100]))
        if indent>prev_indent and indent not in indents:
            indents.append(indent)
        if indent>prev_indent+8: issues['bigindent']+=1
        if indent<prev_indent and indent not in indents: issues['dedent-unknown']+=1; ex.setdefault('dedent-unknown',(ln,line[:100]))
        if '\t' in line: issues['tab']+=1
        prev_indent=indent
    print(path[len('/repo/stdnum/'):], n, dict(issues), ex)
