import sys, re, collections, itertools, decimal, datetime
sys.path.insert(0,'/repo')
from stdnum import gs1_128, ean, iban
from stdnum.exceptions import ValidationError
prop_re=re.compile(r'([0-9a-zA-Z_-]+)="([^"]*)"')
ais=[]
for line in open('/repo/stdnum/gs1_ai.dat'):
    if line.startswith('#'): continue
    rng,rest=line.strip().split(None,1); p=dict(prop_re.findall(rest))
    if '-' in rng:
        lo,hi=rng.split('-'); 
        for a in range(int(lo),int(hi)+1): ais.append((str(a),p))
    else: ais.append((rng,p))
def raw_witnesses(fmt,typ,ai):
    # raw element value strings that fit the format (GS1 semantics), returns list of strings
    out=[]
    parts=fmt.replace('[','').replace(']','').split('+')
    def part_w(p,opt=False):
        m=re.match(r'^([NXYZ])(\.\.)?([0-9]+)$',p)
        if not m: return None
        kind,var,k=m.group(1),m.group(2),int(m.group(3))
        lens=sorted({1,k}) if var else [k]
        res=[]
        for L in lens:
            if kind=='N': res+= ['0'*L, '9'*L, ''.join(str((i+1)%10) for i in range(L))]
            else: res+= [('A1-z/'*20)[:L], ('Z'*L)]
        return res
    ws=[part_w(p) for p in parts]
    if any(w is None for w in ws): return None
    if typ=='date':
        if fmt=='N6': return ['181119','000101','991231','240200','230200','261200','260400']
        if fmt=='N10': return ['1811191245','0001010000','9912312359']
        if fmt=='N6[+N6]': return ['181119','181119181121']
        if fmt=='N6[+N4]': return ['181119','1811191245']
        if fmt=='N8[+N..4]': return ['18111912','1811191245','181119124513']
    if typ=='decimal':
        base=ws[-1]
        res=[]
        k=int(re.search(r'([0-9]+)$',parts[-1]).group(1))
        for places in '0123456789':
            for body in ('0'*k,'9'*k,('1234567890'*3)[:k]):
                if int(places)<=k: res.append(places+body)
        if len(parts)==2: res=[c+r[1:] if False else r[0]+c+r[1:] for r in res for c in ('978','000')]
        return res
    return [''.join(t) for t in itertools.product(*ws)][:12]
bad=collections.Counter(); ex={}
n=0
for ai,p in ais:
    fmt,typ=p['format'],p['type']
    ws=raw_witnesses(fmt,typ,ai)
    if ws is None: bad['fmt-unknown',fmt]+=1; continue
    if ai in ('01','02'): ws=[w[:-1]+ean.calc_check_digit(w[:-1]) for w in ws]
    if ai=='8007': ws=['GR1601101050000010547023795']
    for w in ws:
        for sep in ('','|'):
            x=ai+w; n+=1
            try:
                d=gs1_128.info(x,sep)
            except Exception as e:
                bad['info-raises',fmt,typ,type(e).__name__]+=1; ex.setdefault(('info',fmt,typ),(x,repr(e)[:80])); continue
            try:
                v=gs1_128.validate(x,sep)
                d2=gs1_128.info(v,sep)
                if d2!=d: bad['info(v)!=info(x)',fmt,typ]+=1; ex.setdefault(('d2',fmt,typ),(x,v,d,d2))
                if gs1_128.validate(v,sep)!=v: bad['validate-not-fixed',fmt,typ]+=1; ex.setdefault(('fx',fmt,typ),(x,v,gs1_128.validate(v,sep)))
                for par in (False,True):
                    e=gs1_128.encode(d,sep,par)
                    d3=gs1_128.info(e,sep)
                    if d3!=d: bad['roundtrip',fmt,typ]+=1; ex.setdefault(('rt',fmt,typ),(x,d,e,d3))
            except Exception as e:
                bad['raises',fmt,typ,type(e).__name__]+=1; ex.setdefault(('r',fmt,typ),(x,repr(e)[:80]))
print(n)
for k,v in sorted(bad.items(),key=str): print(k,v)
for k,v in sorted(ex.items(),key=str): print(k,v)
