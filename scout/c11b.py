import sys, re, glob, collections, time
sys.path.insert(0,'/repo')
from stdnum import numdb
prop_re=re.compile(r'([0-9a-zA-Z_-]+)="([^"]*)"')
def parse(path):
    # own parser -> tree of nodes: (indent, [(lo,hi)], props, children)
    root=[]; stack=[(-1,root)]
    for line in open(path,encoding='utf-8'):
        if line.startswith('#') or not line.strip(): continue
        line=line.rstrip('\n')
        indent=len(line)-len(line.lstrip(' '))
        body=line.strip()
        parts=body.split(None,1)
        ranges=[]
        for r in parts[0].split(','):
            lo,_,hi=r.partition('-'); ranges.append((lo,hi or lo))
        props=dict(prop_re.findall(parts[1] if len(parts)>1 else ''))
        node=(indent,ranges,props,[])
        while stack[-1][0]>=indent: stack.pop()
        stack[-1][1].append(node)
        stack.append((indent,node[3]))
    return root
t=time.time()
for path in sorted(glob.glob('/repo/stdnum/**/*.dat', recursive=True)):
    name=path[len('/repo/stdnum/'):-4]
    db=numdb.get(name)
    tree=parse(path)
    n=0; bad=[]
    def walk(nodes,prefix,pparts):
        global n
        for indent,ranges,props,children in nodes:
            for lo,hi in ranges:
                for w in {lo,hi}:
                    n+=1
                    res=db.info(prefix+w)
                    exp_idx=len(pparts)
                    ok = len(res)>exp_idx and res[exp_idx][0]==w and all(res[exp_idx][1].get(k)==v for k,v in props.items())
                    if not ok: bad.append((prefix,w,props,res))
                walk(children,prefix+lo,pparts+[lo])
    walk(tree,'',[])
    print(name,n,len(bad),bad[:2])
print(time.time()-t)
