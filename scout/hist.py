import sys, time, importlib, pickle, hashlib, warnings
warnings.simplefilter('ignore')
sys.path.insert(0,'/repo')
def purge():
    for k in [k for k in sys.modules if k=='stdnum' or k.startswith('stdnum.')]: del sys.modules[k]
def state_digest():
    nd=sys.modules.get('stdnum.numdb')
    parts=[]
    if nd:
        for k in sorted(nd._open_databases):
            parts.append((k,hashlib.sha256(pickle.dumps(nd._open_databases[k].prefixes)).hexdigest()[:12]))
    for mn in ('stdnum.iban','stdnum.eu.vat','stdnum.vatin'):
        m=sys.modules.get(mn)
        if m: parts.append((mn,sorted((k,getattr(v,'__name__',None)) for k,v in m._country_modules.items())))
    parts.append(sorted(k for k in sys.modules if k.startswith('stdnum.')))
    return hashlib.sha256(repr(parts).encode()).hexdigest()[:16]
def call(path,*a):
    mod,fn=path.rsplit('.',1)
    m=importlib.import_module(mod)
    try: return ('ok',repr(getattr(m,fn)(*a)))
    except Exception as e: return ('exc',type(e).__name__)
ops=[('stdnum.be.iban.info','BE31435411161155'),('stdnum.cz.bankaccount.info','34278-0727558021/0100'),('stdnum.nz.bankaccount.info','01-902-0068389-00'),
     ('stdnum.eu.vat.validate','BE697449992'),('stdnum.eu.vat.validate','EL 094259216'),('stdnum.vatin.validate','BE697449992'),('stdnum.iban.validate','BE31435411161155'),
     ('stdnum.iban.validate','GR16 0110 1050 0000 1054 7023 795'),('stdnum.isbn.split','9789024538270'),('stdnum.mac.get_manufacturer','D0-50-99-84-A2-A0'),('stdnum.imsi.info','429011234567890'),
     ('stdnum.gs1_128.info','(01)38425876095074(17)181119(37)1')]
t=time.time()
for i in range(20):
    purge()
    import stdnum
print('purge+import base', (time.time()-t)/20)
exp={}
for op in ops:
    purge(); t=time.time(); exp[op]=call(*op); print(op[0], round(time.time()-t,3), exp[op][1][:60], state_digest())
# depth-2
t=time.time(); n=0; bad=0; states=set()
for a in ops:
    for b in ops:
        purge(); call(*a); r=call(*b); n+=1; states.add(state_digest())
        if r!=exp[b]: bad+=1
print(n,bad,len(states),round(time.time()-t,1))
