"""Scouting probe: product-automaton reachability for single substitution / adjacent transposition on the
automaton learned from the real code, with witness replay on the implementation. Also run on an in-memory
mutant of the Verhoeff permutation table to see a counterexample come out."""
import sys, collections, time
sys.path.insert(0,'/repo')
from stdnum import verhoeff, damm, luhn
from stdnum.iso7064 import mod_11_2, mod_37_2, mod_11_10, mod_37_36, mod_97_10

def learn(alphabet, obs, step):
    init=obs(''); access={init:''}; delta={}; q=collections.deque([init])
    while q:
        s=q.popleft()
        for c in alphabet:
            w=step(access[s],c); t=obs(w); delta[s,c]=t
            if t not in access: access[t]=w; q.append(t)
    return init,access,delta

def product(alphabet, init, delta, accept, kind, same_kind, step, is_valid):
    """BFS over (phase, q1, q2) with witness strings; returns (states, transitions, doubly-accepting witnesses)."""
    start=(0,init,init); wit={start:('','')}; q=collections.deque([start]); trans=0; bad=[]
    while q:
        st=q.popleft(); ph,a,b=st; w1,w2=wit[st]
        succ=[]
        if ph==0:
            for c in alphabet: succ.append(((0,delta[a,c],delta[b,c]),step(w1,c),step(w2,c)))
            if kind=='sub':
                for c in alphabet:
                    for d in alphabet:
                        if c!=d and same_kind(c,d): succ.append(((1,delta[a,c],delta[b,d]),step(w1,c),step(w2,d)))
            else:
                for c in alphabet:
                    for d in alphabet:
                        if c!=d and same_kind(c,d):
                            succ.append(((1,delta[delta[a,c],d],delta[delta[b,d],c]),step(step(w1,c),d),step(step(w2,d),c)))
        else:
            for c in alphabet: succ.append(((1,delta[a,c],delta[b,c]),step(w1,c),step(w2,c)))
        for t,x1,x2 in succ:
            trans+=1
            if t not in wit:
                wit[t]=(x1,x2); q.append(t)
                if t[0]==1 and accept(t[1]) and accept(t[2]): bad.append((x1,x2))
    # replay every reachable product state's witness pair on the implementation
    replayed=0
    for (ph,a,b),(x1,x2) in wit.items():
        if not x1: continue
        assert is_valid(x1)==accept(a) and is_valid(x2)==accept(b),(x1,x2)
        replayed+=2
    return len(wit),trans,bad,replayed

D='0123456789'; kind_digit=lambda c,d: c.isdigit()==d.isdigit()
def run(name, alphabet, obs, step, accept, is_valid, transp=True):
    init,acc,delta=learn(alphabet,obs,step)
    for k in (['sub','swap'] if transp else ['sub']):
        t=time.time(); n,tr,bad,rp=product(alphabet,init,delta,accept,k,kind_digit,step,is_valid)
        print(f'{name:10s} {k:4s} model_states={len(acc):3d} product_states={n:6d} transitions={tr:8d} replayed={rp:6d} undetected={len(bad)} {bad[:2]} {time.time()-t:.2f}s')

lr=lambda w,c:w+c; rl=lambda w,c:c+w
run('verhoeff',D,lambda w:(verhoeff.checksum(w) if w else 0,len(w)%8),rl,lambda s:s[0]==0,verhoeff.is_valid)
run('damm',D,lambda w:damm.checksum(w),lr,lambda s:s==0,damm.is_valid)
run('luhn10',D,lambda w:(luhn.checksum(w) if w else 0,len(w)%2),rl,lambda s:s[0]==0,luhn.is_valid)
run('mod_11_2',D+'X',lambda w:mod_11_2.checksum(w),lr,lambda s:s==1,mod_11_2.is_valid)
run('mod_11_10',D,lambda w:mod_11_10.checksum(w),lr,lambda s:s==1,mod_11_10.is_valid,transp=False)
A36='0123456789ABCDEFGHIJKLMNOPQRSTUVWXYZ'
run('mod_97_10',A36,lambda w:mod_97_10.checksum(w) if w else 0,lr,lambda s:s==1,mod_97_10.is_valid,transp=False)
run('mod_97_10d',D,lambda w:mod_97_10.checksum(w) if w else 0,lr,lambda s:s==1,mod_97_10.is_valid)
run('mod_37_36',A36,lambda w:mod_37_36.checksum(w),lr,lambda s:s==1,mod_37_36.is_valid,transp=False)
# mutant: swap two entries of row 5 of the permutation table
pt=[list(r) for r in verhoeff._permutation_table]; pt[5][2],pt[5][3]=pt[5][3],pt[5][2]
verhoeff._permutation_table=tuple(tuple(r) for r in pt)
print('--- mutant: verhoeff permutation row 5 entries 2,3 swapped')
run('verhoeff*',D,lambda w:(verhoeff.checksum(w) if w else 0,len(w)%8),rl,lambda s:s[0]==0,verhoeff.is_valid)
