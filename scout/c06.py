import sys, itertools, collections, time
sys.path.insert(0,'/repo')
from stdnum import luhn, verhoeff, damm
from stdnum.iso7064 import mod_11_2, mod_37_2, mod_11_10, mod_37_36, mod_97_10

# generic: learn automaton for "reading direction" dir; observation obs(w) -> hashable state label
def learn(alphabet, obs, step_concat, maxstates=100000):
    # obs(w): observable state after reading w; step_concat(w,c): the string representing reading c after w
    init=obs('')
    access={init:''}
    delta={}
    q=collections.deque([init])
    while q:
        s=q.popleft()
        w=access[s]
        for c in alphabet:
            w2=step_concat(w,c)
            t=obs(w2)
            delta[(s,c)]=t
            if t not in access:
                access[t]=w2; q.append(t)
    return init,access,delta

def conformance(alphabet, init, delta, obs, step_concat, L):
    n=0
    frontier=[('',init)]
    for l in range(L):
        nxt=[]
        for w,s in frontier:
            for c in alphabet:
                w2=step_concat(w,c); t=delta[(s,c)]
                assert obs(w2)==t,(w2,obs(w2),t)
                n+=1
                nxt.append((w2,t))
        frontier=nxt
    return n

# Damm: left-to-right, state = checksum(w)
t0=time.time()
A='0123456789'
init,acc,d=learn(A, lambda w: damm.checksum(w), lambda w,c:w+c)
print('damm states',len(acc),'trans',len(d), conformance(A,init,d,lambda w: damm.checksum(w), lambda w,c:w+c,5))
# Verhoeff: processes reversed; reading right-to-left: prepend. state=(checksum, len%8)
obs=lambda w:(verhoeff.checksum(w) if w else 0, len(w)%8)
init,acc,d=learn(A, obs, lambda w,c:c+w)
print('verhoeff states',len(acc),len(d), conformance(A,init,d,obs,lambda w,c:c+w,5))
# Luhn mod N
for N in (2,10,16,36,40):
    alpha=''.join(chr(0x30+i) if i<10 else chr(0x41+i-10) for i in range(N))
    if N>36: alpha=''.join(chr(0x100+i) for i in range(N))
    obs=lambda w:(luhn.checksum(w,alpha) if w else 0, len(w)%2)
    init,acc,d=learn(alpha, obs, lambda w,c:c+w)
    print('luhn',N,'states',len(acc),len(d), conformance(alpha,init,d,obs,lambda w,c:c+w,3))
# mod 97-10: left to right
A36='0123456789ABCDEFGHIJKLMNOPQRSTUVWXYZ'
obs=lambda w: mod_97_10.checksum(w) if w else 0
init,acc,d=learn(A36, obs, lambda w,c:w+c)
print('97-10 states',len(acc),len(d), conformance(A36,init,d,obs,lambda w,c:w+c,3))
obs=lambda w: mod_37_36.checksum(w)
init,acc,d=learn(A36, obs, lambda w,c:w+c)
print('37-36 states',len(acc),len(d))
obs=lambda w: mod_37_2.checksum(w)
init,acc,d=learn(A36+'*', obs, lambda w,c:w+c)
print('37-2 states',len(acc),len(d))
obs=lambda w: mod_11_2.checksum(w)
init,acc,d=learn(A+'X', obs, lambda w,c:w+c)
print('11-2 states',len(acc),len(d))
obs=lambda w: mod_11_10.checksum(w)
init,acc,d=learn(A, obs, lambda w,c:w+c)
print('11-10 states',len(acc),len(d))
print(time.time()-t0)
