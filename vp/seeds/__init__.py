"""Seeds: accepted presentations per module (DESIGN.md §1.1)."""
import os
import re
import json

from .. import core

_CORPUS = os.path.join(os.path.dirname(__file__), 'corpus.json')
_cache = {}


def literals(path):
    try:
        txt = open(path, encoding='utf-8').read()
    except OSError:
        return set()
    out = set()
    for m in re.finditer(r"'([^'\n\\]{1,80})'|\"([^\"\n\\]{1,80})\"", txt):
        out.add(m.group(1) or m.group(2))
    for line in txt.splitlines():
        s = line.strip()
        if s.startswith('... '):
            s = s[4:].strip()
            if s and not any(k in s for k in ('=', '(', ')', 'import', 'for ', 'if ', 'print')):
                out.add(s)
    return out


def _files(name):
    rel = name.split('.', 1)[1]
    return (os.path.join(core.REPO, name.replace('.', '/') + '.py'),
            os.path.join(core.REPO, 'tests', 'test_' + rel.replace('.', '_').replace('in__', 'in_')
                         .replace('is__', 'is_') + '.doctest'))


def extract(name, module):
    lits = set()
    for p in _files(name):
        lits |= literals(p)
    ok = []
    for x in sorted(lits):
        try:
            if module.is_valid(x) is True:
                ok.append(x)
        except Exception:
            pass
    return ok


def build_corpus():
    mods = core.modules()
    corpus = {name: extract(name, m) for name, m in mods.items()}
    with open(_CORPUS, 'w', encoding='utf-8') as f:
        json.dump(corpus, f, indent=0, ensure_ascii=True, sort_keys=True)
    return corpus


def _shape(v):
    return (len(v), ''.join('d' if c.isdigit() else 'a' if c.isalpha() else 'p' for c in v))


def seeds(name, limit=None):
    """Accepted seeds of a module on the working tree: [(as_written, canonical)], most diverse first."""
    if name not in _cache:
        mods = core.modules()
        m = mods[name]
        if not os.path.exists(_CORPUS):
            cand = extract(name, m)
        else:
            if '_corpus' not in _cache:
                _cache['_corpus'] = json.load(open(_CORPUS, encoding='utf-8'))
            # the committed corpus (literals of the pinned tree) plus what the working tree documents now
            cand = sorted(set(_cache['_corpus'].get(name) or ()) | set(extract(name, m)))
        acc = []
        rejected = 0
        corpus_set = set((_cache.get('_corpus') or {}).get(name) or ())

        def _try(mod, s):
            try:
                v = mod.validate(s)
                return v if isinstance(v, str) else None
            except Exception:
                return None
        for s in cand:
            v = _try(m, s)
            if v is None and s in corpus_set:
                # a documented number of the pinned tree that is rejected now: once more on a freshly loaded module (a
                # module whose state was used up by the calls before it must not leave the explorers without seeds)
                import sys
                import importlib
                sys.modules.pop(name, None)
                try:
                    v = _try(importlib.import_module(name), s)
                except Exception:
                    v = None
            if v is None:
                rejected += 1
            else:
                acc.append((s, v))
        # diversity order: one per canonical shape first, preferring decorated spellings
        acc.sort(key=lambda sv: (sv[1], -len(sv[0]), sv[0]))
        seen_shape, seen_v, first, second, rest = set(), set(), [], [], []
        for s, v in acc:
            sh = _shape(v)
            if sh not in seen_shape:
                seen_shape.add(sh)
                seen_v.add(v)
                first.append((s, v))
            elif v not in seen_v:
                seen_v.add(v)
                second.append((s, v))
            else:
                rest.append((s, v))
        # ... interleaved with one representative per *presentation* class (the written form with runs of digits and of
        # letters collapsed: 'a. a. a.: a9/9/9' is another class than 'a9/9/9'), longest spelling first: a documented
        # decoration (label, prefix, other separators) is among the first seeds even when its canonical shape is common
        def dec(x):
            return re.sub(r'[A-Za-z]+', 'a', re.sub(r'[0-9]+', '9', x))
        seen_dec, deco = set(), []
        for s, v in sorted(acc, key=lambda sv: (-len(dec(sv[0])), -len(sv[0]), sv[0])):
            d = dec(s)
            if d not in seen_dec:
                seen_dec.add(d)
                deco.append((s, v))
        ordered = []
        for i in range(max(len(first), len(deco))):
            for lst in (first, deco):
                if i < len(lst) and lst[i] not in ordered:
                    ordered.append(lst[i])
        for sv_ in second + rest:
            if sv_ not in ordered:
                ordered.append(sv_)
        _cache[name] = (ordered, rejected)
    lst = _cache[name][0]
    return lst[:limit] if limit else lst


def rejected(name):
    seeds(name)
    return _cache[name][1]
