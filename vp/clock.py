"""Clock seam (DESIGN.md §1.6): replaces the name `datetime` (and directly imported date /
datetime classes) in every stdnum module namespace by a shim whose today()/now() return the
explorer's chosen answer.  No change to /repo."""
import sys
import datetime as _real


class _State:
    today = None      # None -> real clock
    calls = {}


def _caller_module():
    f = sys._getframe(2)
    return f.f_globals.get('__name__', '?')


class _DateMeta(type):
    def __instancecheck__(cls, inst):
        return isinstance(inst, _real.date)


class date(_real.date, metaclass=_DateMeta):
    @classmethod
    def today(cls):
        m = _caller_module()
        _State.calls[m] = _State.calls.get(m, 0) + 1
        if _State.today is None:
            return _real.date.today()
        return _real.date(_State.today.year, _State.today.month, _State.today.day)


class _DateTimeMeta(type):
    def __instancecheck__(cls, inst):
        return isinstance(inst, _real.datetime)


class datetime(_real.datetime, metaclass=_DateTimeMeta):
    @classmethod
    def now(cls, tz=None):
        m = _caller_module()
        _State.calls[m] = _State.calls.get(m, 0) + 1
        if _State.today is None:
            return _real.datetime.now(tz)
        return _real.datetime(_State.today.year, _State.today.month, _State.today.day, 12, 0, 0)

    @classmethod
    def today(cls):
        return cls.now()

    @classmethod
    def utcnow(cls):
        return cls.now()


class _Shim:
    """Stands in for the `datetime` module."""
    date = date
    datetime = datetime
    timedelta = _real.timedelta
    time = _real.time
    timezone = _real.timezone
    MINYEAR = _real.MINYEAR
    MAXYEAR = _real.MAXYEAR

    def __getattr__(self, name):
        return getattr(_real, name)


shim = _Shim()


def install():
    """Patch every loaded stdnum module that holds datetime / date / datetime-class names."""
    patched = []
    for name, mod in list(sys.modules.items()):
        if mod is None or not (name == 'stdnum' or name.startswith('stdnum.')):
            continue
        d = getattr(mod, '__dict__', {})
        for k, v in list(d.items()):
            if v is _real:
                d[k] = shim
                patched.append((name, k))
            elif v is _real.date:
                d[k] = date
                patched.append((name, k))
            elif v is _real.datetime:
                d[k] = datetime
                patched.append((name, k))
    return patched


def set_today(d):
    _State.today = d


def calls():
    return dict(_State.calls)


def reset_calls():
    _State.calls = {}


REAL_TODAY = _real.date.today()
MENU = [None, _real.date(1970, 1, 1), _real.date(1999, 12, 31), _real.date(2000, 1, 1),
        _real.date(2000, 2, 29), _real.date(2038, 1, 19), _real.date(2099, 12, 31)]
