"""Clock seam (DESIGN.md §1.6): replaces the name `datetime` (and directly imported date /
datetime classes) in every stdnum module namespace by a shim whose today()/now() return the
explorer's chosen answer.  No change to /repo."""
import sys
import contextlib
import datetime as _real

_DATE = _real.date
_DATETIME = _real.datetime


class _State:
    today = None      # None -> real clock
    calls = {}


def _caller_module():
    f = sys._getframe(2)
    return f.f_globals.get('__name__', '?')


class _DateMeta(type):
    def __instancecheck__(cls, inst):
        return isinstance(inst, _DATE)


class date(_DATE, metaclass=_DateMeta):
    @classmethod
    def today(cls):
        m = _caller_module()
        _State.calls[m] = _State.calls.get(m, 0) + 1
        if _State.today is None:
            return _DATE.today()
        return _DATE(_State.today.year, _State.today.month, _State.today.day)


class _DateTimeMeta(type):
    def __instancecheck__(cls, inst):
        return isinstance(inst, _DATETIME)


class datetime(_DATETIME, metaclass=_DateTimeMeta):
    @classmethod
    def now(cls, tz=None):
        m = _caller_module()
        _State.calls[m] = _State.calls.get(m, 0) + 1
        if _State.today is None:
            return _DATETIME.now(tz)
        return _DATETIME(_State.today.year, _State.today.month, _State.today.day, 12, 0, 0)

    @classmethod
    def today(cls):
        return cls.now()

    @classmethod
    def utcnow(cls):
        return cls.now()


class _Shim:
    """Stands in for the `datetime` module."""
    date = date
    datetime = datetime
    timedelta = _real.timedelta
    time = _real.time
    timezone = _real.timezone
    MINYEAR = _real.MINYEAR
    MAXYEAR = _real.MAXYEAR

    def __getattr__(self, name):
        return getattr(_real, name)


shim = _Shim()


def install():
    """Patch every loaded stdnum module that holds datetime / date / datetime-class names."""
    patched = []
    for name, mod in list(sys.modules.items()):
        if mod is None or not (name == 'stdnum' or name.startswith('stdnum.')):
            continue
        d = getattr(mod, '__dict__', {})
        for k, v in list(d.items()):
            if v is _real:
                d[k] = shim
                patched.append((name, k))
            elif v is _DATE:
                d[k] = date
                patched.append((name, k))
            elif v is _DATETIME:
                d[k] = datetime
                patched.append((name, k))
    return patched


def set_today(d):
    _State.today = d


def calls():
    return dict(_State.calls)


def reset_calls():
    _State.calls = {}


@contextlib.contextmanager
def process_wide():
    """While active, the classes `date` and `datetime` of the real datetime module are the shims: code that runs at
    import time of a library module (module-level `datetime.now()`), or binds the classes during a lazy import, gets
    the explorer's clock answer as well."""
    _real.date, _real.datetime = date, datetime
    try:
        yield
    finally:
        _real.date, _real.datetime = _DATE, _DATETIME


REAL_TODAY = _DATE.today()
MENU = [None, _DATE(1970, 1, 1), _DATE(1999, 12, 31), _DATE(2000, 1, 1),
        _DATE(2000, 2, 29), _DATE(2038, 1, 19), _DATE(2099, 12, 31)]
