# coding: utf-8
"""Class-complete exploration alphabet (DESIGN.md §1.2) and the class of any character."""
import unicodedata
import functools

SEPS = " -./:,'*"
STRIP_CTRL = '\t\n\r\x0b\x0c\x1c\x1d\x1e\x1f'

# representatives per class (quick alphabet)
QUICK = {
    'digit': '09',
    'upper': 'AZXKOIQ',
    'lower': 'az',
    'sep': SEPS,
    'punct': '%()+_"<>&',
    'strip-control': '\t\n\r\x0b\x1c\x1f',
    'control': '\x00\x7f',
    'nonascii-space': '\x85\xa0  ​﻿‮',
    'lookalike': '３\U0001d7d7–．',
    'foreign-digit': '٣३᭓',
    'other-numeric': '²½⑱ⅷ〇',
    'special-letter': 'ßŉǰﬁıİſKÅ',
    'nonascii-letter': 'ÄÑéΑВЯяＡ',
    'mark': '́',
    'astral': '\U0001f634',
    'surrogate': '\ud800',
}
THOROUGH_EXTRA = {
    'digit': '12345678',
    'upper': 'BCDEFGHJLMNPRSTUVWY',
    'lower': 'bkx',
    'punct': '!#$;=?@[\\]^`{|}~',
    'strip-control': '\x0c\x1d\x1e',
    'control': '\x01\x08\x0e\x1b',
    'nonascii-space': '     　 ‎⁠',
    'lookalike': '０９\U0001d7ce−・／：，’＊ ',
    'foreign-digit': '٠٩۵৪๙０\U0001d7ff\U0001e950',
    'other-numeric': '¹³⁰₀①ⅠⅯ〡三௰\U00010107',
    'special-letter': 'ẞﬀﬆΐẖ',
    'nonascii-letter': 'äñØαаАａＺא中',
    'mark': '⃣‍',
    'astral': '\U00010400\U0001d400',
    'surrogate': '\udfff',
}

# one representative per class (used for 2-deviation exploration)
ONE = {k: v[0] for k, v in QUICK.items()}
ONE['sep'] = ' '


def quick_alphabet():
    return ''.join(QUICK.values())


def thorough_alphabet():
    return ''.join(QUICK[k] + THOROUGH_EXTRA.get(k, '') for k in QUICK)


def one_alphabet():
    return ''.join(ONE.values()) + '-.\n'


@functools.lru_cache(maxsize=None)
def _clean1(c):
    from stdnum.util import clean
    try:
        return clean(c, '')
    except Exception:
        return c


@functools.lru_cache(maxsize=None)
def class_of(c):
    """Σ class name of a single character."""
    o = ord(c)
    if o < 128:
        if c.isdigit():
            return 'digit'
        if c.isupper():
            return 'upper'
        if c.islower():
            return 'lower'
        if c in SEPS:
            return 'sep'
        if c in STRIP_CTRL:
            return 'strip-control'
        if o < 32 or o == 127:
            return 'control'
        return 'punct'
    if 0xd800 <= o <= 0xdfff:
        return 'surrogate'
    if _clean1(c) != c:
        return 'lookalike'
    cat = unicodedata.category(c)
    if cat == 'Nd':
        return 'foreign-digit'
    if cat in ('No', 'Nl'):
        return 'other-numeric'
    if c.isspace() or cat in ('Zs', 'Zl', 'Zp', 'Cf', 'Cc'):
        return 'nonascii-space'
    if cat.startswith('M'):
        return 'mark'
    if cat.startswith('L'):
        u, lo = c.upper(), c.lower()
        if len(u) != 1 or len(lo) != 1 or u.isascii() or lo.isascii() or \
                unicodedata.normalize('NFKC', c).isascii() and o < 0x2200:
            return 'special-letter'
        return 'nonascii-letter'
    if o > 0xffff:
        return 'astral'
    return 'other'
