"""Reference model of the registry semantics (statement of C10), written from the documented meaning of
the file format, independent of stdnum.numdb: own line parser, own tree, own lookup."""
import re

_prop = re.compile(r'([0-9a-zA-Z_-]+)="([^"]*)"')


def parse(text):
    """-> list of nodes (ranges [(lo, hi)], props dict, children list); comment and blank lines ignored."""
    root = []
    stack = [(-1, root)]
    for line in text.splitlines():
        if not line.strip() or line.startswith('#'):
            continue
        indent = len(line) - len(line.lstrip(' '))
        body = line.strip().split(None, 1)
        ranges = []
        for r in body[0].split(','):
            lo, _, hi = r.partition('-')
            ranges.append((lo, hi or lo))
        props = dict(_prop.findall(body[1] if len(body) > 1 else ''))
        node = (ranges, props, [])
        while stack[-1][0] >= indent:
            stack.pop()
        stack[-1][1].append(node)
        stack.append((indent, node[2]))
    return root


def info(nodes, number):
    """At each level: ranges whose length fits and that contain the prefix; the shortest length wins;
    properties of all winners merged in file order; children of the winners searched in the remainder;
    an unmatched remainder is one property-less part; an empty remainder ends."""
    if not number:
        return []
    matches = []
    for ranges, props, children in nodes:
        for lo, hi in ranges:
            n = len(lo)
            if n <= len(number) and lo <= number[:n] <= hi:
                matches.append((n, props, children))
    if not matches:
        return [(number, {})]
    n = min(m[0] for m in matches)
    props = {}
    kids = []
    for ln, p, c in matches:
        if ln == n:
            props.update(p)
            kids.extend(c)
    return [(number[:n], props)] + info(kids, number[n:])


def split(nodes, number):
    return [p for p, _ in info(nodes, number)]
