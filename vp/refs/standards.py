"""Reference validators for C07, transcribed from the published rules (ISO 2108, GS1 GenSpecs, ISO 3297,
ISO 10957, ISO 6166, ISO 13616, 3GPP TS 23.003, ISO 11649, ISO 27729, ISO 17442, GRid, ANSI X9.6, LSE SEDOL,
OpenFIGI, IMO A.1117(30), CAS, ISO 9362, ISO 3901, BIP-13/BIP-173) without looking at how stdnum computes them.
Each function returns the canonical form or None (rejected).  Separators are the ones each stdnum module
documents that it strips; surrounding whitespace is removed; no Unicode folding is done (C14 covers that), so the
C07 input space contains no characters of the clean-up table."""
import os
import re
import json
import hashlib

D = '0123456789'
U = 'ABCDEFGHIJKLMNOPQRSTUVWXYZ'
A36 = D + U

_tables = json.load(open(os.path.join(os.path.dirname(os.path.dirname(__file__)), 'tables', 'c07_country_codes.json')))


def prep(x, seps, upper=True):
    if not isinstance(x, str):
        return None
    x = ''.join(c for c in x if c not in seps).strip()
    return x.upper() if upper else x


def alldigits(s):
    return s != '' and all(c in D for c in s)


# ------------------------------------------------------------------ check digit systems (own implementations)

def gs1_check(body):
    """GS1 mod-10: weights 3,1,3,... from the right."""
    return str((10 - sum((3 if i % 2 == 0 else 1) * int(c) for i, c in enumerate(reversed(body)))) % 10)


def luhn_ok(digits):
    total = 0
    for i, c in enumerate(reversed(digits)):
        v = int(c)
        if i % 2 == 1:
            v *= 2
            if v > 9:
                v -= 9
        total += v
    return total % 10 == 0


def mod97(s):
    """ISO 7064 Mod 97-10 over 0-9A-Z (letters count 10..35): remainder."""
    r = 0
    for c in s:
        v = A36.index(c)
        r = (r * (10 if v < 10 else 100) + v) % 97
    return r


def mod11_2(s):
    r = 0
    for c in s:
        r = (r * 2 + (10 if c == 'X' else int(c))) % 11
    return r


def mod37_36_ok(s):
    p = 36
    for c in s[:-1]:
        p = (p + A36.index(c)) % 36 or 36
        p = (p * 2) % 37
    return (p + A36.index(s[-1])) % 36 == 1


# ------------------------------------------------------------------------------------------------ formats

def isbn(x):
    n = prep(x, ' -')
    if n is None:
        return None
    if len(n) == 9:         # Standard Book Number
        n = '0' + n
    if len(n) == 10:
        if not alldigits(n[:9]) or n[9] not in D + 'X':
            return None
        total = sum((10 - i) * (10 if c == 'X' else int(c)) for i, c in enumerate(n))
        return n if total % 11 == 0 else None
    if len(n) == 13:
        if not alldigits(n) or n[:3] not in ('978', '979') or gs1_check(n[:12]) != n[12]:
            return None
        return n
    return None


def ean(x):
    n = prep(x, ' -', upper=False)
    if n is None or len(n) not in (8, 12, 13, 14) or not alldigits(n):
        return None
    return n if gs1_check(n[:-1]) == n[-1] else None


def issn(x):
    n = prep(x, ' -')
    if n is None or len(n) != 8 or not alldigits(n[:7]) or n[7] not in D + 'X':
        return None
    total = sum((8 - i) * (10 if c == 'X' else int(c)) for i, c in enumerate(n))
    return n if total % 11 == 0 else None


def ismn(x):
    n = prep(x, ' -.')
    if n is None:
        return None
    if len(n) == 10 and n[0] == 'M' and alldigits(n[1:]):
        return n if gs1_check('9790' + n[1:9]) == n[9] else None
    if len(n) == 13 and alldigits(n) and n.startswith('9790'):
        return n if gs1_check(n[:12]) == n[12] else None
    return None


def isin(x):
    n = prep(x, ' ')
    if n is None or len(n) != 12 or any(c not in A36 for c in n) or n[:2] not in _tables['isin']:
        return None
    if n[11] not in D:
        return None
    digits = ''.join(str(A36.index(c)) for c in n)
    return n if luhn_ok(digits) else None


def imei(x):
    n = prep(x, ' -')
    if n is None or not alldigits(n):
        return None
    if len(n) == 15:
        return n if luhn_ok(n) else None
    return n if len(n) in (14, 16) else None


def isni(x):
    n = prep(x, ' -')
    if n is None or len(n) != 16 or not alldigits(n[:15]) or n[15] not in D + 'X':
        return None
    return n if mod11_2(n) == 1 else None


def lei(x):
    n = prep(x, ' -')
    if n is None or len(n) != 20 or any(c not in A36 for c in n) or not alldigits(n[18:]):
        return None
    return n if mod97(n) == 1 else None


def iso11649(x):
    n = prep(x, ' -.,/:')
    if n is None or not (5 <= len(n) <= 25) or n[:2] != 'RF' or not alldigits(n[2:4]) or any(c not in A36 for c in n):
        return None
    return n if mod97(n[4:] + n[:4]) == 1 else None


def grid(x):
    n = prep(x, ' -')
    if n is None:
        return None
    if n.startswith('GRID:'):
        n = n[5:]
    if len(n) != 18 or any(c not in A36 for c in n):
        return None
    return n if mod37_36_ok(n) else None


_CUSIP = A36 + '*@#'


def cusip(x):
    n = prep(x, ' ')
    if n is None or len(n) != 9 or any(c not in _CUSIP for c in n):
        return None
    total = 0
    for i, c in enumerate(n[:8]):
        v = _CUSIP.index(c) * (2 if i % 2 == 1 else 1)
        total += v // 10 + v % 10
    return n if str((10 - total % 10) % 10) == n[8] else None


_SEDOL = D + 'BCDFGHJKLMNPQRSTVWXYZ'


def sedol(x):
    n = prep(x, ' ')
    if n is None or len(n) != 7 or any(c not in _SEDOL for c in n):
        return None
    if n[0] in D and not alldigits(n):
        return None
    total = sum(w * A36.index(c) for w, c in zip((1, 3, 1, 7, 3, 9, 1), n))
    return n if total % 10 == 0 and n[6] in D else None


def figi(x):
    n = prep(x, ' ')
    cons = 'BCDFGHJKLMNPQRSTVWXYZ'
    if n is None or len(n) != 12 or any(c not in D + cons for c in n):
        return None
    if n[0] not in cons or n[1] not in cons or n[:2] in ('BS', 'BM', 'GG', 'GB', 'VG') or n[2] != 'G' or n[11] not in D:
        return None
    total = 0
    for i, c in enumerate(n[:11]):
        v = A36.index(c) * (2 if i % 2 == 1 else 1)
        total += v // 10 + v % 10
    return n if (10 - total % 10) % 10 == int(n[11]) else None


def imo(x):
    n = prep(x, ' ')
    if n is None:
        return None
    if n.startswith('IMO'):
        n = n[3:]
    if len(n) != 7 or not alldigits(n):
        return None
    return n if sum(int(c) * (7 - i) for i, c in enumerate(n[:6])) % 10 == int(n[6]) else None


def casrn(x):
    n = prep(x, ' ', upper=False)
    if n is None:
        return None
    if '-' not in n:
        n = n[:-3] + '-' + n[-3:-1] + '-' + n[-1:]
    m = re.match(r'^([1-9][0-9]{1,6})-([0-9]{2})-([0-9])$', n)
    if not m or '\n' in n:
        return None
    body = m.group(1) + m.group(2)
    return n if sum((i + 1) * int(c) for i, c in enumerate(reversed(body))) % 10 == int(m.group(3)) else None


def bic(x):
    n = prep(x, ' -')
    if n is None or len(n) not in (8, 11):
        return None
    if any(c not in U for c in n[:6]) or any(c not in A36 for c in n[6:]):
        return None
    return n


def isrc(x):
    n = prep(x, ' -')
    if n is None or len(n) != 12:
        return None
    if any(c not in U for c in n[:2]) or any(c not in A36 for c in n[2:5]) or not alldigits(n[5:]):
        return None
    return n if n[:2] in _tables['isrc'] else None


# ---- IBAN (ISO 13616 + SWIFT registry structures, national checks where stdnum ships a national module)

def iban_structs(repo):
    out = {}
    for line in open(os.path.join(repo, 'stdnum', 'iban.dat'), encoding='utf-8'):
        if line.startswith('#') or not line.strip():
            continue
        cc = line.split(' ', 1)[0]
        m = re.search(r'bban="([^"]*)"', line)
        out[cc] = re.findall(r'([0-9]+)!([nac])', m.group(1) if m else '')
    return out


_structs = {}


def iban(x, repo='/repo', national=True):
    n = prep(x, ' -.')
    if n is None or len(n) < 5 or any(c not in A36 for c in n[:4]):
        return None
    if repo not in _structs:
        _structs[repo] = iban_structs(repo)
    st = _structs[repo].get(n[:2])
    if st is None or not alldigits(n[2:4]) or not ('02' <= n[2:4] <= '98'):
        return None
    bban = n[4:]
    pos = 0
    for k, t in st:
        part = bban[pos:pos + int(k)]
        if len(part) != int(k):
            return None
        ok = {'n': D, 'a': U, 'c': A36 + U.lower()}[t]
        if any(c not in ok for c in part):
            return None
        pos += int(k)
    if pos != len(bban):
        return None
    if any(c not in A36 for c in bban) or mod97(bban + n[:4]) != 1:
        return None
    if national:
        if n[:2] == 'BE':
            r = int(bban[:10]) % 97 or 97
            if '%02d' % r != bban[10:]:
                return None
        elif n[:2] == 'ES':
            def cd(s):
                r = sum(int(c) * 2 ** i for i, c in enumerate(s)) % 11
                return str(r if r < 2 else 11 - r)
            if bban[8:10] != cd('00' + bban[:8]) + cd(bban[10:]):
                return None
        elif n[:2] == 'NO':
            w = (5, 4, 3, 2, 7, 6, 5, 4, 3, 2)
            r = 11 - sum(a * int(c) for a, c in zip(w, bban[:10])) % 11
            r = 0 if r == 11 else r
            if r == 10 or str(r) != bban[10]:
                return None
        elif n[:2] == 'ME':
            if mod97(bban) != 1:
                return None
    return n


# ---- Bitcoin (BIP-13 Base58Check P2PKH/P2SH, BIP-173 Bech32 segwit)

_B58 = '123456789ABCDEFGHJKLMNPQRSTUVWXYZabcdefghijkmnopqrstuvwxyz'
_B32 = 'qpzry9x8gf2tvdw0s3jn54khce6mua7l'


def _polymod(values):
    gen = (0x3b6a57b2, 0x26508e6d, 0x1ea119fa, 0x3d4233dd, 0x2a1462b3)
    chk = 1
    for v in values:
        b = chk >> 25
        chk = (chk & 0x1ffffff) << 5 ^ v
        for i in range(5):
            chk ^= gen[i] if (b >> i) & 1 else 0
    return chk


def bitcoin(x):
    n = prep(x, ' ', upper=False)
    if n is None:
        return None
    if n[:3].lower() == 'bc1':
        n = n.lower()
    if n[:1] in ('1', '3'):
        if any(c not in _B58 for c in n):
            return None
        v = 0
        for c in n:
            v = v * 58 + _B58.index(c)
        raw = v.to_bytes((v.bit_length() + 7) // 8, 'big') if v else b''
        raw = b'\x00' * (len(n) - len(n.lstrip('1'))) + raw
        if len(raw) != 25:
            return None
        return n if hashlib.sha256(hashlib.sha256(raw[:21]).digest()).digest()[:4] == raw[21:] else None
    if n.startswith('bc1'):
        data = n[3:]
        if any(c not in _B32 for c in data) or not (11 <= len(n) <= 90):
            return None
        vals = [_B32.index(c) for c in data]
        if _polymod([3, 3, 0, 2, 3] + vals) != 1:
            return None
        if len(vals) < 7:
            return None
        ver, prog5 = vals[0], vals[1:-6]
        acc = bits = 0
        out = []
        for v in prog5:
            acc = (acc << 5) | v
            bits += 5
            while bits >= 8:
                bits -= 8
                out.append((acc >> bits) & 0xff)
        if bits >= 5 or (acc & ((1 << bits) - 1)):
            return None
        if ver > 16 or not (2 <= len(out) <= 40) or (ver == 0 and len(out) not in (20, 32)):
            return None
        return n
    return None


REFS = {
    'stdnum.isbn': isbn, 'stdnum.ean': ean, 'stdnum.issn': issn, 'stdnum.ismn': ismn, 'stdnum.isin': isin,
    'stdnum.iban': iban, 'stdnum.imei': imei, 'stdnum.iso11649': iso11649, 'stdnum.isni': isni, 'stdnum.lei': lei,
    'stdnum.grid': grid, 'stdnum.cusip': cusip, 'stdnum.gb.sedol': sedol, 'stdnum.figi': figi, 'stdnum.imo': imo,
    'stdnum.casrn': casrn, 'stdnum.bic': bic, 'stdnum.isrc': isrc, 'stdnum.bitcoin': bitcoin,
}
ALPHABETS = {
    'stdnum.isbn': D + 'X- ', 'stdnum.ean': D + '- ', 'stdnum.issn': D + 'X-', 'stdnum.ismn': D + 'M-.', 'stdnum.isin': A36,
    'stdnum.iban': A36 + ' ', 'stdnum.imei': D + '-', 'stdnum.iso11649': A36 + ' ', 'stdnum.isni': D + 'X ', 'stdnum.lei': A36,
    'stdnum.grid': A36 + '-:', 'stdnum.cusip': A36 + '*@#', 'stdnum.gb.sedol': A36, 'stdnum.figi': A36, 'stdnum.imo': D + 'IMO ',
    'stdnum.casrn': D + '-', 'stdnum.bic': A36, 'stdnum.isrc': A36 + '-', 'stdnum.bitcoin': _B58 + '0l',
}


# ------------------------------------------------------------------ reference-constructed inputs (C07)

def bech32_encode(ver, prog_bytes, extra_zero_groups=0, pad_bits_nonzero=False):
    """BIP-173 encoder for hrp 'bc' (used to build inputs with a correct checksum, valid or not by the rules)."""
    acc = bits = 0
    data = []
    for b in prog_bytes:
        acc = (acc << 8) | b
        bits += 8
        while bits >= 5:
            bits -= 5
            data.append((acc >> bits) & 31)
    if bits:
        v = (acc << (5 - bits)) & 31
        if pad_bits_nonzero:
            v |= 1
        data.append(v)
    data += [0] * extra_zero_groups
    vals = [ver] + data
    pm = _polymod([3, 3, 0, 2, 3] + vals + [0] * 6) ^ 1
    chk = [(pm >> 5 * (5 - i)) & 31 for i in range(6)]
    return 'bc1' + ''.join(_B32[v] for v in vals + chk)


def base58check_encode(version, payload):
    raw = bytes([version]) + payload
    raw += hashlib.sha256(hashlib.sha256(raw).digest()).digest()[:4]
    v = int.from_bytes(raw, 'big')
    out = ''
    while v:
        v, r = divmod(v, 58)
        out = _B58[r] + out
    return '1' * (len(raw) - len(raw.lstrip(b'\x00'))) + out


def constructed_inputs(name):
    out = []
    if name == 'stdnum.bitcoin':
        for ver in (0, 1, 2, 15, 16, 17, 31):
            for ln in (1, 2, 19, 20, 21, 31, 32, 33, 40, 41):
                prog = bytes((7 * i + ln) % 256 for i in range(ln))
                for ez in (0, 1, 2):
                    for pn in (False, True):
                        out.append(bech32_encode(ver, prog, ez, pn))
        for version in (0, 5, 111, 196, 128):
            for ln in (19, 20, 21):
                out.append(base58check_encode(version, bytes((3 * i + version) % 256 for i in range(ln))))
        out += [x.upper() for x in out[:40]] + [x[:6].upper() + x[6:] for x in out[:40]]
    return out
