"""Witness values per GS1 application-identifier format (GS1 General Specifications, section 3: element
string formats).  Values are the *raw* value text that follows the AI in an element string.
Written from the format notation itself: N = digits, X/Y/Z = character set 82 / 39 / base64url, Nk fixed
length, N..k variable up to k, [+...] optional component, dates YYMMDD (DD may be 00), decimals with the
number of implied places as the first digit (the last digit of the printed AI)."""
import re

GTINS = ['38425876095074', '00000000000000', '98765432109213', '00012345678905']
IBANS = ['BE31435411161155', 'GR1601101050000010547023795']

X82 = 'A', 'zZ9', 'aB3-/.+_', 'a b'
DATES6 = ['000101', '991231', '180200', '200229', '190228', '161200', '251100', '990200', '690200', '680200', '500600']
TIMES4 = ['0000', '2359', '1230']


def _digits(k, variant):
    if variant == 0:
        return '0' * k
    if variant == 1:
        return '9' * k
    return ('1234567890' * (k // 10 + 1))[:k]


def _part(spec, which):
    """Witnesses for one component like N6, N..15, X..20, X2; which in ('min', 'max', 'mid')."""
    m = re.match(r'^([NXYZ])(\.\.)?([0-9]+)$', spec)
    if not m:
        return None
    kind, var, k = m.group(1), bool(m.group(2)), int(m.group(3))
    lens = [k] if not var else {'min': [1], 'max': [k], 'mid': [max(1, k - 1), min(k, 2)]}[which]
    out = []
    for ln in lens:
        if kind == 'N':
            out.append(_digits(ln, {'min': 0, 'max': 1, 'mid': 2}[which]))
        else:
            base = {'min': 'A', 'max': 'zZ9-/', 'mid': 'a B3'}[which]
            w = (base * (ln // len(base) + 1))[:ln]
            if w.endswith(' ') or w.startswith(' '):
                w = w.replace(' ', 'x')
            if kind in 'YZ':
                w = re.sub('[^A-Z0-9]', 'Q', w.upper())
            out.append(w)
    return out


def witnesses(ai, fmt, typ):
    """List of raw values for this AI (at least a minimal and a maximal one), [] when the format notation is
    not understood by this generator."""
    if ai in ('01', '02'):
        return list(GTINS)
    if ai == '8007':
        return list(IBANS)
    if typ == 'date':
        if fmt == 'N6':
            return list(DATES6)
        if fmt == 'N10':
            return [d + t for d in ('000101', '991231', '200229') for t in TIMES4 if not d.endswith('00')]
        if fmt == 'N6[+N6]':
            return ['180101', '180200', '180101180131', '991231000101', '990200', '990200991200', '680100690100',
                    '181119181119', '181100181130', '000101000101']      # a range of one day (start = end)
        if fmt == 'N6[+N4]':
            return ['180101', '1801011230', '9912312359', '1801010000']
        if fmt == 'N8[+N..4]':
            return ['18010112', '1801011230', '180101123059', '99123123', '180101000000']
        return []
    if typ == 'decimal':
        m = re.match(r'^(N3\+)?N(\.\.)?([0-9]+)$', fmt)
        if not m:
            return []
        cur, var, k = m.group(1), bool(m.group(2)), int(m.group(3))
        out = []
        for places in (0, 1, 2, 3, 6, 9):
            lens = [k] if not var else sorted({1, 2, k - 1, k})
            for ln in lens:
                if places > ln:
                    continue
                for v in (0, 1, 2):
                    out.append(str(places) + ('978' if cur else '') + _digits(ln, v))
        return out
    # str / int
    parts = fmt.split('+')
    optional = None
    m = re.match(r'^([^\[]+)\[\+([^\]]+)\]$', fmt)
    if m:
        parts = [m.group(1)]
        optional = m.group(2)
    out = []
    for which in ('min', 'max', 'mid'):
        ws = [_part(p, which) for p in parts]
        if any(w is None for w in ws):
            return []
        base = ''.join(w[0] for w in ws)
        out.append(base)
        if optional:
            o = _part(optional, which)
            if o is None:
                return []
            out.append(base + o[0])
        if len(ws[-1]) > 1:
            out.append(''.join(w[0] for w in ws[:-1]) + ws[-1][1])
    if typ == 'int':
        out = [w for w in out if w.isdigit()]
    return list(dict.fromkeys(out))


def ai_table(text):
    """Own 15-line reader of gs1_ai.dat: [(ai, format, type, fnc1)] with ranges like 91-99 expanded."""
    out = []
    for line in text.splitlines():
        if not line.strip() or line.startswith('#'):
            continue
        head, _, rest = line.strip().partition(' ')
        props = dict(re.findall(r'([0-9a-zA-Z_-]+)="([^"]*)"', rest))
        lo, _, hi = head.partition('-')
        hi = hi or lo
        if lo.isdigit() and hi.isdigit() and len(lo) == len(hi):
            for n in range(int(lo), int(hi) + 1):
                out.append(('%0*d' % (len(lo), n), props.get('format', ''), props.get('type', ''), bool(props.get('fnc1'))))
    return out


def full_ai(ai, fmt, typ, raw):
    """Printed AI and value for decimal AIs (the implied-places digit is the last AI digit)."""
    return ai, raw
