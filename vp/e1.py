"""Engine E1: bounded-deviation input explorer (edit BFS) — DESIGN.md §1.2.

A state is a string; a transition is one edit.  `neighbours` enumerates *all* single edits of
a string over an alphabet; `explore` does the BFS to a deviation bound and returns
{string: (ndev, devclass, origin)} with the first (fewest-deviation) path kept.
"""
from .alphabet import class_of


def neighbours(s, alphabet, whole=True):
    """Yield (string, devclass) for every single edit of s."""
    n = len(s)
    for c in alphabet:
        cl = class_of(c)
        for i in range(n + 1):
            yield s[:i] + c + s[i:], 'ins:' + cl
        for i in range(n):
            if s[i] != c:
                yield s[:i] + c + s[i + 1:], 'sub:' + cl
    for i in range(n):
        yield s[:i] + s[i + 1:], 'del:' + class_of(s[i])
    for i in range(n - 1):
        if s[i] != s[i + 1]:
            yield s[:i] + s[i + 1] + s[i] + s[i + 2:], 'swap'
    if whole:
        for t, d in ((s.lower(), 'lower'), (s.upper(), 'upper'), (s.swapcase(), 'swapcase'),
                     (s + s, 'double'), (s * 64, 'times64'), (s + 'A' * 10000, 'long-tail'),
                     (s + '0' * 5000, 'long-digits'),
                     (''.join(ch for ch in s if ch.isalnum()), 'strip-seps')):
            if t != s:
                yield t, 'whole:' + d
        # optional components: the written number without its last / first group(s)
        for sep in dict.fromkeys(ch for ch in s if not ch.isalnum()):
            parts = s.split(sep)
            if len(parts) >= 2:
                for t, d in ((sep.join(parts[:-1]), 'drop-last-group'), (sep.join(parts[1:]), 'drop-first-group'),
                             (sep.join(parts[:-2]), 'drop-last-two-groups')):
                    if t and t != s:
                        yield t, 'whole:' + d
        # the first group repeated inside the second (a prefix that occurs again further on: replace() without a count)
        for sep in dict.fromkeys(ch for ch in s if not ch.isalnum()):
            parts = s.split(sep)
            if len(parts) >= 2 and parts[0] and len(parts[1]) >= len(parts[0]):
                t = sep.join([parts[0], parts[0] + parts[1][len(parts[0]):]] + parts[2:])
                for u, d in ((t, 'echo-prefix'), (t.lower(), 'echo-prefix-lower'), (parts[0].lower() + t[len(parts[0]):], 'echo-prefix-mixed')):
                    if u != s:
                        yield u, 'whole:' + d
            break
        # heavy but uniform decoration (fixed-width padding, one separator between all characters, tripled separators)
        a = ''.join(ch for ch in s if ch.isalnum())
        for t, d in ((' '.join(a), 'spaced'), ('-'.join(a), 'hyphenated'), ('.'.join(a), 'dotted'),
                     (' ' * 40 + s + ' ' * 40, 'pad40'),
                     (''.join(ch if ch.isalnum() else ch * 3 for ch in s), 'sep3'),
                     (s[:len(s) // 2] + ' ' * 300 + s[len(s) // 2:], 'gap300')):
            if t != s:
                yield t, 'whole:' + d


def explore(starts, alphabet, bound=1, alphabet2=None, whole=True):
    """BFS over edits.  starts: iterable of strings (deviation 0).
    Returns (states dict, transitions count)."""
    states = {}
    frontier = []
    for s in starts:
        if s not in states:
            states[s] = (0, '', s)
            frontier.append(s)
    transitions = 0
    for depth in range(1, bound + 1):
        alpha = alphabet if depth == 1 else (alphabet2 or alphabet)
        nxt = []
        for s in frontier:
            d0, dc0, origin = states[s]
            for t, dc in neighbours(s, alpha, whole=whole and depth == 1):
                transitions += 1
                if t not in states:
                    states[t] = (depth, (dc0 + '+' + dc) if dc0 else dc, origin)
                    nxt.append(t)
        frontier = nxt
    return states, transitions


def short_strings(alphabet, maxlen):
    """All strings of length <= maxlen over alphabet."""
    out = ['']
    layer = ['']
    for _ in range(maxlen):
        layer = [p + c for p in layer for c in alphabet]
        out.extend(layer)
    return out


# ---------------------------------------------------------------------------------------------
# Standard per-module state sets used by the monitors that ride on E1 (C01, C02, C03, C15, C04)

SUB12 = '09AZaz -.\n\xa0٣'


def e2_accepts(m, x):
    from . import e2
    return e2._accepts(m, x, {})


def module_states(name, tier, nseeds=None, with_short=True, with_synth=True):
    """States for one module: <=1 deviation (quick) / full alphabet and <=2 deviations from two
    seeds (thorough) around the module's seeds in both spellings, plus all short strings."""
    from . import seeds as seedmod
    from . import alphabet
    quick = tier != 'thorough'
    if nseeds is None:
        nseeds = 4 if quick else 24
    sv = seedmod.seeds(name, nseeds)
    starts = []
    for s, v in sv:
        for x in (s, v):
            if x not in starts:
                starts.append(x)
    alpha = alphabet.quick_alphabet() if quick else alphabet.thorough_alphabet()
    states, transitions = explore(starts, alpha, bound=1)
    if not quick:
        two = []
        for s, v in sv[:2]:
            for x in (s, v):
                if x not in two:
                    two.append(x)
        one = alphabet.one_alphabet()
        st2, tr2 = explore(two, one, bound=2, whole=False)
        transitions += tr2
        for k, val in st2.items():
            if k not in states:
                states[k] = val
    if with_synth:
        from . import synth, core
        m = core.modules()[name]
        dn = synth.date_numbers(name, m, sv, raw=True)
        valid_dates = [x for x in dn if e2_accepts(m, x)]
        # valid numbers carrying special dates become additional start states (deviation 0 relative to
        # themselves); the raw candidates are plain states
        extra_starts = valid_dates[:6 if quick else 40]
        st3, tr3 = explore(extra_starts, alpha, bound=1, whole=False)
        transitions += tr3
        for k, val in st3.items():
            if k not in states:
                states[k] = (val[0] + 1, ('synth:date+' + val[1]) if val[1] else 'synth:date', val[2])
        for x in dn:
            transitions += 1
            if x not in states:
                states[x] = (1, 'synth:date', '')
        for x in synth.registry_inputs(name, m, sv, limit=250 if quick else 3000,
                                       funcs=('validate', 'format', 'split', 'info')):
            transitions += 1
            if x not in states:
                states[x] = (1, 'synth:registry', '')
        if name == 'stdnum.gs1_128':
            for x in synth.gs1_strings():
                transitions += 1
                if x not in states:
                    states[x] = (1, 'synth:gs1', '')
        lv = synth.length_variants(name, m, sv)
        st4, tr4 = explore(lv[:4 if quick else 20], alpha, bound=1, whole=False)
        transitions += tr4
        for k, val in st4.items():
            if k not in states:
                states[k] = (val[0] + 1, ('synth:length+' + val[1]) if val[1] else 'synth:length', val[2])
        for x in lv:
            transitions += 1
            if x not in states:
                states[x] = (1, 'synth:length', '')
        for x in synth.run_numbers(name, m, sv):
            transitions += 1
            if x not in states:
                states[x] = (1, 'synth:run', '')
        # wrappers: the documented numbers of the number modules this module imports (the constituents it delegates to)
        # are candidate inputs too -- e.g. a NIK is a valid 16-digit NPWP although no NPWP example near the top shows one
        import types
        for k_, dep in sorted(vars(m).items()):
            if isinstance(dep, types.ModuleType) and dep.__name__.startswith('stdnum.') and dep.__name__ != name \
                    and hasattr(dep, 'validate') and hasattr(dep, 'is_valid') and dep.__name__ not in core.GENERIC:
                try:
                    dsv = seedmod.seeds(dep.__name__, 2)
                except Exception:
                    dsv = []
                for s_, v_ in dsv:
                    for x in (v_, s_):
                        transitions += 1
                        if x not in states:
                            states[x] = (0, 'synth:delegate', x)
        if name in ('stdnum.eu.vat', 'stdnum.vatin'):
            # dispatchers: a documented number of every constituent under its own code (27 states + XI + EL alias)
            from .checks import c09
            for cc, mn in sorted(c09.EU.items()):
                for s_, v_ in seedmod.seeds('stdnum.' + mn, 2):
                    bare = v_[2:] if v_.upper().startswith(cc) else v_
                    for x in (cc + bare, cc + ' ' + bare, cc.lower() + bare):
                        transitions += 1
                        if x not in states:
                            states[x] = (1, 'synth:dispatch', '')
        for x in synth.literal_inputs(name, m, sv, limit=800 if quick else 3000):
            transitions += 1
            if x not in states:
                states[x] = (1, 'synth:literal', '')
        for x in synth.table_inputs(name, m, sv, limit=600 if quick else 5000):
            transitions += 1
            if x not in states:
                states[x] = (1, 'synth:table', '')
    if with_short:
        for x in short_strings(alpha, 2 if quick else 2):
            transitions += 1
            if x not in states:
                states[x] = (len(x), 'short:' + '+'.join(class_of(c) for c in x), '')
        for x in short_strings(SUB12, 3 if quick else 4):
            transitions += 1
            if x not in states:
                states[x] = (len(x), 'short:' + '+'.join(class_of(c) for c in x), '')
    return states, transitions, sv
