"""Shared runner: environment, process pool, violation triage, replay files, evidence.

Every check module (vp/checks/cXX.py) provides
    ID, TITLE, RULE, ASSUMPTIONS, TECHNIQUE
    plan(ctx)        -> list of picklable work items (deterministic order)
    work(item)       -> Result (runs in a forked worker, library already imported)
    replay(case)     -> list of violation dicts for that single case (no explorer involved)
    finish(ctx, merged) (optional) -> may add coverage keys / global violations
"""
import os
import sys
import json
import time
import hashlib
import fnmatch
import traceback
import subprocess
import multiprocessing

VERIF = os.path.dirname(os.path.dirname(os.path.abspath(__file__)))
REPO = os.environ.get('VP_REPO_ROOT', '/repo')
NPROC = int(os.environ.get('VP_NPROC', '16'))


def setup_path():
    """Make sure `import stdnum` resolves to the working tree under REPO."""
    if sys.path[0] != REPO:
        sys.path.insert(0, REPO)
    import warnings
    warnings.simplefilter('ignore')


_modules = None


def modules():
    """All number modules of the working tree, by name (sorted)."""
    global _modules
    if _modules is None:
        setup_path()
        from stdnum.util import get_number_modules
        _modules = {m.__name__: m for m in get_number_modules()}
        import stdnum
        root = os.path.realpath(os.path.dirname(os.path.dirname(stdnum.__file__)))
        if root != os.path.realpath(REPO):
            raise RuntimeError('stdnum imported from %s, expected %s' % (root, REPO))
    return dict(sorted(_modules.items()))


GENERIC = ('stdnum.luhn', 'stdnum.verhoeff', 'stdnum.damm', 'stdnum.iso7064.mod_11_2',
           'stdnum.iso7064.mod_11_10', 'stdnum.iso7064.mod_37_2', 'stdnum.iso7064.mod_37_36',
           'stdnum.iso7064.mod_97_10')


# --------------------------------------------------------------------------- values

_NONSTR = {
    'None': None, '0': 0, '18': 18, '12345678903': 12345678903, '1.5': 1.5, 'True': True,
    'False': False, "b''": b'', "b'123'": b'123', '[]': [], "['1', '2']": ['1', '2'],
    "('1', '2', '3')": ('1', '2', '3'), '{}': {}, "{'a': 1}": {'a': 1}, 'range(3)': range(3),
    '10**30': 10 ** 30, 'object()': object(),
    "b'\\x80'": b'\x80', "b'\\xff\\xfe1'": b'\xff\xfe1', "bytearray(b'123')": bytearray(b'123'),
}


def nonstr_values():
    return list(_NONSTR.items())


def enc(x):
    """JSON-able encoding of an argument value."""
    if isinstance(x, str):
        return x
    for k, v in _NONSTR.items():
        if v is x:
            return {'py': k}
    return {'py': repr(x)}


def dec(x):
    if isinstance(x, dict) and 'py' in x:
        if x['py'] in _NONSTR:
            return _NONSTR[x['py']]
        return eval(x['py'], {'__builtins__': {'range': range, 'object': object, 'True': True, 'False': False, 'None': None, 'bytearray': bytearray}})
    return x


def short(x, n=120):
    r = x if isinstance(x, str) else repr(x)
    r = ascii(r)
    return r if len(r) <= n else r[:n] + '...(len %d)' % len(r)


# --------------------------------------------------------------------------- outcomes

def exc_site(exc):
    """Innermost frame inside stdnum/ of a traceback: 'pkg/file.py:function'."""
    site = None
    tb = exc.__traceback__
    while tb is not None:
        fn = tb.tb_frame.f_code.co_filename.replace('\\', '/')
        if '/stdnum/' in fn or '/online_check/' in fn:
            rel = fn.split('/stdnum/', 1)[-1] if '/stdnum/' in fn else fn.rsplit('/', 1)[-1]
            site = '%s:%s' % (rel, tb.tb_frame.f_code.co_name)
        tb = tb.tb_next
    return site or '<outside>'


def outcome(f, *a, **k):
    """('ok', value) | ('verr', class name) | ('exc', class name, site)."""
    from stdnum.exceptions import ValidationError
    try:
        return ('ok', f(*a, **k))
    except ValidationError as e:
        return ('verr', type(e).__name__)
    except KeyboardInterrupt:
        raise
    except BaseException as e:  # noqa: B902 - the property is about *any* other exception
        return ('exc', type(e).__name__, exc_site(e))


# --------------------------------------------------------------------------- results

class Result(dict):
    """Mergeable bag: ints are summed, lists concatenated (capped for samples), sets united,
    dicts merged recursively."""

    def __init__(self, **kw):
        super().__init__(states=0, transitions=0, evaluations=0, nontrivial=0,
                         impl_execs=0, violations=[], samples=[], extra={})
        self.update(kw)

    def viol(self, prop, clause, module, func, case, observed, expected, devclass='',
             excinfo='', rank=None, what=None):
        sig = '|'.join(x for x in (prop, clause, '%s.%s' % (module, func) if func else module,
                                   excinfo, devclass) if x != '' or True)
        self['violations'].append({
            'property': prop, 'clause': clause, 'module': module, 'func': func, 'sig': sig,
            'case': case, 'observed': observed, 'expected': expected,
            'rank': rank if rank is not None else [0, 0, ''],
            'what': what or '%s %s.%s %s %s' % (clause, module, func, excinfo, devclass),
        })


def merge_into(a, b):
    for k, v in b.items():
        if k not in a:
            a[k] = v
        elif isinstance(v, bool):
            a[k] = a[k] and v
        elif isinstance(v, (int, float)):
            a[k] += v
        elif isinstance(v, list):
            a[k].extend(v)
        elif isinstance(v, set):
            a[k] |= v
        elif isinstance(v, dict):
            merge_into(a[k], v)
    return a


# --------------------------------------------------------------------------- pool

_check = None


def _worker(item):
    try:
        t = time.time()
        r = _check.work(item)
        # compress violations per signature inside the worker (keep min rank + count)
        best = {}
        for v in r['violations']:
            b = best.get(v['sig'])
            if b is None:
                v['count'] = v.get('count', 1)
                best[v['sig']] = v
            else:
                b['count'] += v.get('count', 1)
                if tuple(v['rank']) < tuple(b['rank']):
                    v['count'] = b['count']
                    best[v['sig']] = v
        r['violations'] = list(best.values())
        r['samples'] = r['samples'][:3]
        r['extra'].setdefault('item_wall', {})[str(item)[:80]] = round(time.time() - t, 2)
        return (item, r, None)
    except BaseException:  # noqa: B902
        return (item, None, traceback.format_exc())


def run_pool(check, items, nproc=None):
    global _check
    _check = check
    nproc = nproc or NPROC
    results = []
    if nproc <= 1 or len(items) <= 1:
        for it in items:
            results.append(_worker(it))
    else:
        ctx = multiprocessing.get_context('fork')
        with ctx.Pool(min(nproc, len(items))) as pool:
            for res in pool.imap_unordered(_worker, items, chunksize=1):
                results.append(res)
    errs = [(it, e) for it, r, e in results if e]
    if errs:
        sys.stderr.write('HARNESS ERROR in work item %r:\n%s\n' % errs[0])
        sys.exit(2)
    results.sort(key=lambda x: repr(x[0]))
    merged = Result()
    for _it, r, _e in results:
        merge_into(merged, r)
    return merged


# --------------------------------------------------------------------------- known findings

def load_known():
    p = os.path.join(VERIF, 'known_findings.json')
    if not os.path.exists(p):
        return {'findings': [], 'fixed': []}
    return json.load(open(p, encoding='utf-8'))


def match_known(sig, prop, known):
    for f in known['findings']:
        if f['property'] != prop:
            continue
        for pat in f['signatures']:
            if pat.startswith('re:'):
                import re
                if re.fullmatch(pat[3:], sig):
                    return f
                continue
            if sig == pat or (('*' in pat or '?' in pat) and fnmatch.fnmatchcase(sig, pat)):
                return f
    return None


# --------------------------------------------------------------------------- replay files

def write_replay(v):
    d = os.path.join(os.environ.get('VP_REPLAY_DIR') or os.path.join(VERIF, 'replays'), v['property'])
    os.makedirs(d, exist_ok=True)
    body = {k: v[k] for k in ('property', 'clause', 'module', 'func', 'sig', 'case', 'observed',
                              'expected', 'what')}
    txt = json.dumps(body, indent=1, sort_keys=True)
    digest = hashlib.sha256(txt.encode()).hexdigest()[:12]
    path = os.path.join(d, digest + '.json')
    with open(path, 'w') as f:
        f.write(txt + '\n')
    return path


def replay_file(check, path):
    rec = json.load(open(path))
    vs = check.replay(rec['case'])
    return rec, vs


def confirm_in_fresh_process(prop, path):
    """Re-execute the replay file in a fresh interpreter; True when the same signature fails."""
    env = dict(os.environ)
    p = subprocess.run([sys.executable, '-X', 'utf8', '-m', 'vp.run', prop, '--replay', path, '--quiet'],
                       cwd=VERIF, env=env, capture_output=True, text=True, timeout=600)
    return p.returncode == 1, p.stdout + p.stderr


# --------------------------------------------------------------------------- evidence

def write_evidence(check, tier, seed, merged, wall, n_viol, known_seen, extra_cov=None):
    cov = {
        'states': int(merged['states']),
        'transitions': int(merged['transitions']),
        'traces_validated_against_impl': int(merged['impl_execs']),
        'evaluations': int(merged['evaluations']),
        'distinct_nontrivial': int(merged['nontrivial']),
        'rule': check.RULE,
        'samples': merged['samples'][:12] or ['<none>'],
        'exhaustive': bool(merged['extra'].pop('exhaustive', False)),
        'known_findings_seen': known_seen,
    }
    iw = merged['extra'].pop('item_wall', {})
    cov['slowest_items'] = sorted(iw.items(), key=lambda kv: -kv[1])[:5]
    for k, v in merged['extra'].items():
        cov[k] = sorted(v) if isinstance(v, set) else v
    if extra_cov:
        cov.update(extra_cov)
    ev = {
        'property_id': check.ID, 'tier': tier, 'seed': seed, 'level': 'model_checking',
        'coverage': cov, 'assumptions': list(check.ASSUMPTIONS), 'wall_s': round(wall, 2),
        'violations': n_viol,
    }
    evdir = os.environ.get('VP_EVIDENCE_DIR') or os.path.join(VERIF, 'evidence')     # mutant runs write elsewhere
    os.makedirs(evdir, exist_ok=True)
    path = os.path.join(evdir, check.ID + '.json')
    tmp = path + '.tmp'
    with open(tmp, 'w') as f:
        json.dump(ev, f, indent=1, sort_keys=True, default=_json_default)
        f.write('\n')
    os.replace(tmp, path)
    return path


def _json_default(o):
    if isinstance(o, (set, frozenset)):
        return sorted(o, key=repr)
    if isinstance(o, tuple):
        return list(o)
    return repr(o)
