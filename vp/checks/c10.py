"""C10 — registry lookup semantics (DESIGN.md §2 C10): implementation vs reference model over all
well-formed registry files of a small scope x all short queries, and over the shipped files x boundary queries."""
import io
import os
import glob
import itertools

from .. import core
from ..core import Result
from ..refs import numdb_ref

ID = 'C10'
TECHNIQUE = 'exhaustive enumeration of all well-formed registry files in a small scope x all query strings up to a length bound, implementation vs reference model; boundary queries on every entry of the shipped files'
RULE = ('configurations = every registry text built from the line pool (ranges over {0,1,2} of length 1-2, single '
        'and multi-range lines, property sets) in every file shape of the scope (1-3 top-level lines, children, '
        'grandchildren, dedents), registries read and dropped one after the other, a quarter of them also over three other '
        'prefix alphabets (punctuation, letters, non-ASCII); inputs = every query of length 0..4 over {0,1,2,3}; plus every range endpoint, '
        'endpoint-1, endpoint+1 of the 17 shipped files and tests/numdb-test.dat followed by nothing / one character / '
        'child endpoints. state = (file, query) pair; oracle: NumDB.info == reference info, split consistent and '
        'lossless. non-trivial = pairs whose reference answer has a matched (property-carrying or multi-part) split.')
ASSUMPTIONS = ['reference semantics are the statement of C10 verbatim (vp/refs/numdb_ref.py)',
               'generated files are well-formed (consistent nesting, equal-length ordered endpoints)']

R1 = [('0', '0'), ('0', '1'), ('1', '2'), ('2', '2'), ('00', '00'), ('00', '11'), ('01', '20'), ('10', '22')]
P = ['', 'a="1"', 'a="2"', 'b="3"', 'c="x\\y # z"', 'a-b_9="\\"']


ALPHABET_MAPS = [str.maketrans('0123', '.:_~'), str.maketrans('0123', '/A\u00e9\u00ff'), str.maketrans('0123', '$az{')]


def rtxt(r):
    return r[0] if r[0] == r[1] else r[0] + '-' + r[1]


def line_pool():
    single = [rtxt(r) + (' ' + p if p else '') for r in R1 for p in P]
    multi = [rtxt(a) + ',' + rtxt(b) + ' a="2"' for a in R1[:4] for b in R1[4:]]
    # the longer range first, and three ranges of mixed lengths on one line
    multi += [rtxt(b) + ',' + rtxt(a) + ' a="2"' for a in R1[:4] for b in R1[4:]][::3]
    multi += ['00-11,0,2 b="3"', '10-22,1,20-22 a="1"']
    return single + multi


def queries(maxlen):
    return [''] + [''.join(t) for n in range(1, maxlen + 1) for t in itertools.product('0123', repeat=n)]


def file_shapes(tier):
    """Yield registry texts.  Shapes (T = top line, c = child, g = grandchild):
       T | T c | T T | T c T | T c c | T c g | T c g c | T c g T | T c T c"""
    L = line_pool()
    quick = tier != 'thorough'
    a = L[::2] if quick else L
    b = L[1::3] if quick else L[::2]
    c = L[::5] if quick else L[::3]
    d = L[2::7] if quick else L[::4]
    for l1 in L:
        yield l1 + '\n'
    for l1 in a:
        for k in b:
            yield l1 + '\n ' + k + '\n'
            for l2 in c:
                yield l1 + '\n ' + k + '\n' + l2 + '\n'
    for l1 in a:
        for l2 in b:
            yield l1 + '\n' + l2 + '\n'
    for l1 in c:
        for k1 in c:
            for k2 in d:
                yield l1 + '\n ' + k1 + '\n ' + k2 + '\n'
                yield l1 + '\n ' + k1 + '\n  ' + k2 + '\n'
                for l2 in d:
                    yield l1 + '\n ' + k1 + '\n  ' + k2 + '\n ' + l2 + '\n'
                    yield l1 + '\n ' + k1 + '\n  ' + k2 + '\n' + l2 + '\n'
                    yield l1 + '\n ' + k1 + '\n' + l2 + '\n ' + k2 + '\n'


def shipped_files():
    root = os.path.join(core.REPO, 'stdnum')
    files = sorted(glob.glob(os.path.join(root, '*.dat')) + glob.glob(os.path.join(root, '*', '*.dat')))
    files.append(os.path.join(core.REPO, 'tests', 'numdb-test.dat'))
    return [f for f in files if os.path.exists(f)]


NCHUNK = 32


def plan(ctx):
    items = [('gen', i, ctx['tier']) for i in range(NCHUNK)]
    for f in shipped_files():
        n = 16 if f.endswith('oui.dat') else 1
        for i in range(n):
            items.append(('file', os.path.relpath(f, core.REPO), i, n, ctx['tier']))
    return items


_HIST = {}


def _compare(res, db, ref, q, what, fileid, text=None):
    from stdnum import numdb  # noqa: F401
    try:
        a = db.info(q)
        s = db.split(q)
    except Exception as e:  # noqa: B902
        a = ('EXC', repr(e))
        s = None
    b = numdb_ref.info(ref, q)
    nontrivial = 1 if (len(b) > 1 or (b and b[0][1])) else 0
    bad = None
    if a != b:
        bad = ('info-differs', 'info(%r) = %r, reference %r' % (q, a, b))
    elif ''.join(s) != q:
        bad = ('split-not-lossless', 'split(%r) = %r' % (q, s))
    elif s != [p for p, _ in a]:
        bad = ('split-differs-from-info', 'split(%r) = %r but info gives %r' % (q, s, a))
    if bad:
        case = {'kind': what, 'file': fileid, 'query': q}
        if text is not None:
            case['text'] = text
            if _HIST.get('prev'):
                case['prev'] = _HIST['prev']
        res.viol(ID, bad[0], 'stdnum.numdb', 'info', case, bad[1], 'reference semantics',
                 excinfo=what, devclass='', rank=[0, len(text or '') + len(q), (text or fileid) + q])
    return nontrivial


def _pred(s):
    if s.isdigit():
        v = int(s) - 1
        return None if v < 0 else '%0*d' % (len(s), v)
    return s[:-1] + chr(ord(s[-1]) - 1) if ord(s[-1]) > 33 else None


def _succ(s):
    if s.isdigit():
        v = int(s) + 1
        return None if len(str(v)) > len(s) else '%0*d' % (len(s), v)
    return s[:-1] + chr(ord(s[-1]) + 1)


def _boundary_queries(nodes, prefix, full, out, depth=0):
    for ranges, props, children in nodes:
        for lo, hi in ranges:
            ends = [lo, hi]
            if full:
                ends += [x for x in (_pred(lo), _succ(hi)) if x]
            kid_ends = []
            for cr, _p, _c in children[:2]:
                kid_ends += [cr[0][0], cr[0][1]]
            for w in dict.fromkeys(ends):
                out.append(prefix + w)
                if full:
                    out.append(prefix + w + '0')
                    for k in dict.fromkeys(kid_ends):
                        out.append(prefix + w + k)
        if children and depth < 3:
            _boundary_queries(children, prefix + ranges[0][0], full, out, depth + 1)


def work(item):
    from stdnum import numdb
    res = Result()
    n = nt = 0
    if item[0] == 'gen':
        _k, idx, tier = item
        qs = queries(4 if tier != 'thorough' else 5)
        files = 0
        prev_text = None
        db = None
        for i, text in enumerate(file_shapes(tier)):
            if i % NCHUNK != idx:
                continue
            files += 1
            # registries come and go: the previous one is dropped before the next is read (an answer must not depend
            # on a registry that no longer exists); the previous text is part of the replayable case
            db = None
            _HIST['prev'] = prev_text
            prev_text = text
            try:
                db = numdb.read(io.StringIO(text))
            except Exception as e:  # noqa: B902
                res.viol(ID, 'read-raises', 'stdnum.numdb', 'read', {'kind': 'gen', 'file': 'generated', 'query': '', 'text': text},
                         repr(e), 'parsed', excinfo='gen', rank=[0, len(text), text])
                continue
            ref = numdb_ref.parse(text)
            for q in qs:
                n += 1
                nt += _compare(res, db, ref, q, 'gen', 'generated', text)
            # the same file over other prefix alphabets (anything but '-', ',' and blanks may be a prefix character):
            # order-preserving translations of the digits, every 4th file in quick
            if tier == 'thorough' or files % 4 == 0:
                for mp in ALPHABET_MAPS:
                    tt = text.translate(mp)
                    try:
                        dbt = numdb.read(io.StringIO(tt))
                    except Exception as e:  # noqa: B902
                        res.viol(ID, 'read-raises', 'stdnum.numdb', 'read', {'kind': 'gen', 'file': 'generated', 'query': '', 'text': tt},
                                 repr(e), 'parsed', excinfo='gen', rank=[1, len(tt), tt])
                        continue
                    reft = numdb_ref.parse(tt)
                    _HIST['prev'] = None
                    for q in qs[:86]:
                        n += 1
                        nt += _compare(res, dbt, reft, q.translate(mp), 'gen', 'generated', tt)
                    dbt = None
            # a caller that modifies what it got back must not change what the registry says afterwards
            for q in qs[:86]:
                try:
                    for part, props in db.info(q):
                        props.clear()
                        props['junk'] = 'x'
                except Exception:
                    pass
            for q in qs[:86]:
                n += 1
                nt += _compare(res, db, ref, q, 'gen-after-mutation', 'generated', text)
        res['extra']['generated_files'] = files
        if idx == 0:
            res['samples'].append({'file_text': 'first generated shapes', 'example': list(itertools.islice(file_shapes(tier), 200, 203))})
    else:
        _k, rel, part, nparts, tier = item
        path = os.path.join(core.REPO, rel)
        text = open(path, encoding='utf-8').read()
        ref = numdb_ref.parse(text)
        db = numdb.read(io.StringIO(text))
        qs = []
        slow = rel.endswith('oui.dat')
        _boundary_queries(ref, '', full=(not slow) or tier == 'thorough', out=qs)
        if slow and tier != 'thorough':
            qs = qs[::10]     # oui.dat: linear scans of 30k prefixes (~20 ms per compared lookup); every 10th endpoint in quick
            res['extra']['oui_endpoint_stride_quick'] = 10
        qs = list(dict.fromkeys(qs + ['', '0', 'A', 'zz']))
        for i, q in enumerate(qs):
            if i % nparts != part:
                continue
            n += 1
            nt += _compare(res, db, ref, q, 'file', rel)
        # the cached handle the consumers use must be the same registry
        if part == 0 and rel.startswith('stdnum'):
            name = rel[len('stdnum/'):-4]
            h = numdb.get(name)
            for q in qs[:200]:
                n += 1
                nt += _compare(res, h, ref, q, 'file', rel)
        res['extra']['shipped_queries'] = {rel: n} if part == 0 else {}
        if part == 0:
            res['samples'].append({'file': rel, 'query': qs[min(5, len(qs) - 1)]})
    res['states'] = n
    res['transitions'] = n
    res['evaluations'] = n
    res['impl_execs'] = n
    res['nontrivial'] = nt
    return res


def replay(case):
    from stdnum import numdb
    res = Result()
    if case['kind'].startswith('gen'):
        text = case['text']
        if case.get('prev'):
            # the registry that was read, queried and dropped before this one
            try:
                dbp = numdb.read(io.StringIO(case['prev']))
                for q in queries(4):
                    dbp.info(q)
                    dbp.split(q)
            except Exception:
                pass
            dbp = None
    else:
        text = open(os.path.join(core.REPO, case['file']), encoding='utf-8').read()
    try:
        db = numdb.read(io.StringIO(text))
    except Exception as e:  # noqa: B902
        res.viol(ID, 'read-raises', 'stdnum.numdb', 'read', case, repr(e), 'parsed', excinfo='gen')
        return res['violations']
    if case['kind'] == 'gen-after-mutation':
        for q in queries(3):
            try:
                for part, props in db.info(q):
                    props.clear()
                    props['junk'] = 'x'
            except Exception:
                pass
    _compare(res, db, numdb_ref.parse(text), case['query'], case['kind'], case['file'], case.get('text'))
    return res['violations']
