"""C13 — results are independent of call history, ordering, aliasing and threads (DESIGN.md §2 C13).

Histories: bounded exhaustive exploration of sequences of public calls (with in-place mutation of returned
containers and clock changes in between), each on a fresh library state; every observation must equal the pristine
observation of the same call.  Schedules: preemption-bounded exploration of two threads racing on the first use of
lazily filled process-wide state, under a cooperative scheduler (sys.settrace), on the real functions."""
import os
import sys
import datetime
import inspect
import itertools
import subprocess

from .. import core, e4, clock, seeds as seedmod
from ..core import Result

ID = 'C13'
TECHNIQUE = 'explicit-state exploration of call histories on fresh library states (all histories up to a length bound over an event menu with colliding keys, result mutation and clock events) + preemption-bounded exhaustive thread-schedule exploration under a controlled scheduler'
RULE = ('histories = all sequences of length <=2 over the focus menu (every process-wide cache / registry handle has >=2 '
        'colliding events), [call, mutate returned container, call] for every function that returns a container, ordered '
        'pairs (validate seed of A, validate seed of B) over modules, clock-advance histories for clock readers; each on a '
        'fresh state (all stdnum modules purged and re-imported); thorough adds length 3 and all 234^2 module pairs. '
        'schedules = 2 threads x 1 call each for pairs of events sharing process-wide state, all interleavings at line '
        'granularity of the cache functions up to the preemption bound, and at line granularity of module top-level code '
        '(import races) up to 1 preemption. oracle: every observation equals the pristine observation of the same call. '
        'non-trivial = histories / schedules in which a later call touches state an earlier step created or modified.')
ASSUMPTIONS = ['a fresh interpreter is modelled by purging all stdnum modules from sys.modules and re-importing; cross-checked '
               'against a real fresh subprocess for the focus events (count in coverage.fresh_process_crosscheck)',
               'scheduling points are line events inside numdb.get, util.get_cc_module, the three _get_cc_module functions and '
               '(import-race harnesses) module top-level code; everything else runs atomically, which is exact under the GIL only '
               'for code that does not touch shared state',
               'threads: 2 (3 in thorough for numdb.get); more threads and longer histories are not explored']


def _seed(name, i=0):
    sv = seedmod.seeds('stdnum.' + name, 3)
    return sv[min(i, len(sv) - 1)][1] if sv else ''


def ev(mod, fn, *args, **kw):
    return ('stdnum.' + mod, fn, tuple(args), tuple(sorted(kw.items())))


def focus_events():
    be_vat, gr_vat, gb_vat, de_vat = _seed('be.vat'), _seed('gr.vat'), _seed('gb.vat'), _seed('de.vat')
    be_iban, es_iban, no_iban = _seed('be.iban'), _seed('es.iban'), _seed('no.iban')
    E = [
        ev('at.postleitzahl', 'info', '5090'), ev('at.tin', 'info', _seed('at.tin')),
        ev('be.iban', 'info', be_iban), ev('be.iban', 'to_bic', be_iban),
        ev('cz.bankaccount', 'info', _seed('cz.bankaccount')), ev('nz.bankaccount', 'info', _seed('nz.bankaccount')),
        ev('cn.ric', 'get_birth_place', _seed('cn.ric')), ev('my.nric', 'get_birth_place', _seed('my.nric')),
        ev('id.nik', 'validate', _seed('id.nik')), ev('us.ein', 'get_campus', _seed('us.ein')),
        ev('eu.nace', 'info', _seed('eu.nace')), ev('cfi', 'info', _seed('cfi')), ev('isil', 'validate', _seed('isil')),
        ev('imsi', 'info', '310150123456789'), ev('imsi', 'split', '429011234567890'),
        ev('isbn', 'split', '9789024538270'), ev('isbn', 'format', '9780471117094'),
        ev('gs1_128', 'info', '(01)38425876095074(17)181119(37)1'), ev('gs1_128', 'info', '(02)98412345678908(15)991231'),
        ev('eu.vat', 'validate', 'BE' + be_vat[-10:]), ev('eu.vat', 'validate', 'EL' + gr_vat[-9:]),
        ev('eu.vat', 'validate', 'GR' + gr_vat[-9:]), ev('eu.vat', 'validate', 'XI' + gb_vat[-9:]),
        ev('eu.vat', 'validate', 'GB' + gb_vat[-9:]), ev('eu.vat', 'validate', 'DE' + de_vat[-9:]),
        ev('eu.vat', 'validate', 'EU191849184'), ev('eu.vat', 'guess_country', be_vat[-10:]),
        ev('eu.vat', 'compact', 'XI ' + gb_vat[-9:]),
        ev('vatin', 'validate', 'BE' + be_vat[-10:]), ev('vatin', 'validate', 'EL' + gr_vat[-9:]),
        ev('vatin', 'validate', 'XI' + gb_vat[-9:]), ev('vatin', 'validate', 'GB' + gb_vat[-9:]),
        ev('vatin', 'validate', 'BR' + _seed('br.cnpj')), ev('vatin', 'validate', 'XX123'),
        ev('iban', 'validate', be_iban), ev('iban', 'validate', 'GR1601101050000010547023795'),
        ev('iban', 'validate', es_iban), ev('iban', 'validate', no_iban),
        ev('iban', 'validate', be_iban[:-1] + ('0' if be_iban[-1] != '0' else '1')),
        ev('util', 'get_cc_module', 'be', 'vat'), ev('util', 'get_cc_module', 'be', 'iban'),
        ev('util', 'get_cc_module', 'be', 'personalid'), ev('util', 'get_cc_module', 'in', 'vat'),
        ev('util', 'get_cc_module', 'xx', 'vat'), ev('util', 'get_cc_module', 'gb', 'vat'),
    ]
    return E


def container_events():
    """(module, function, seed) for every public function that returns a dict / list / set on a seed."""
    out = []
    for name, m in core.modules().items():
        sv = seedmod.seeds(name, 1)
        if not sv:
            continue
        v = sv[0][1]
        for fn, f in sorted(vars(m).items()):
            if fn.startswith('_') or not inspect.isfunction(f) or f.__module__ != name:
                continue
            if fn.startswith(('check_', 'search_', 'b32', 'b58', 'bech32', 'to_binary')) or fn in ('encode',):
                continue
            try:
                ps = list(inspect.signature(f).parameters.values())
            except (TypeError, ValueError):
                continue
            if len([p for p in ps if p.default is inspect.Parameter.empty]) != 1:
                continue
            try:
                r = f(v)
            except Exception:
                continue
            if isinstance(r, (dict, list, set)) or (isinstance(r, tuple) and any(isinstance(x, (dict, list)) for x in r)):
                out.append((name[len('stdnum.'):], fn, v))
    return out


STATEFUL = ('stdnum.iban', 'stdnum.be.iban', 'stdnum.es.iban', 'stdnum.no.iban', 'stdnum.me.iban', 'stdnum.eu.vat', 'stdnum.vatin',
            'stdnum.isbn', 'stdnum.imsi', 'stdnum.mac', 'stdnum.cfi', 'stdnum.isil', 'stdnum.gs1_128', 'stdnum.at.postleitzahl',
            'stdnum.at.tin', 'stdnum.cz.bankaccount', 'stdnum.nz.bankaccount', 'stdnum.cn.ric', 'stdnum.id.nik', 'stdnum.my.nric',
            'stdnum.us.ein', 'stdnum.eu.nace', 'stdnum.ch.vat', 'stdnum.de.handelsregisternummer', 'stdnum.eu.oss')

SCHEDULE_PAIRS = [
    # first use of two different registries, one of them slow to load
    (ev('mac', 'get_manufacturer', 'D0-50-99-84-A2-A0'), ev('imsi', 'split', '429011234567890')),
    # first use of the look-alike clean-up from two threads
    (ev('isbn', 'validate', '９７８-0-471-11709-4'), ev('ean', 'validate', '７３５１３５３７')),
    (ev('be.iban', 'info', 'BE31435411161155'), ev('be.iban', 'info', 'BE31435411161155')),
    (ev('be.iban', 'info', 'BE31435411161155'), ev('cz.bankaccount', 'info', '34278-0727558021/0100')),
    (ev('cz.bankaccount', 'info', '34278-0727558021/0100'), ev('nz.bankaccount', 'info', '01-902-0068389-00')),
    (ev('cn.ric', 'get_birth_place', '360426199101010071'), ev('id.nik', 'validate', '3171011708450001')),
    (ev('isbn', 'split', '9789024538270'), ev('isbn', 'split', '9780471117094')),
    (ev('iban', 'validate', 'BE31435411161155'), ev('iban', 'validate', 'GR1601101050000010547023795')),
    (ev('iban', 'validate', 'BE31435411161155'), ev('iban', 'validate', 'BE31435411161155')),
    (ev('eu.vat', 'validate', 'XI432525179'), ev('eu.vat', 'validate', 'GB432525179')),
    (ev('eu.vat', 'validate', 'BE0697449992'), ev('vatin', 'validate', 'BE0697449992')),
    (ev('eu.vat', 'validate', 'EL094259216'), ev('eu.vat', 'validate', 'GR094259216')),
    (ev('vatin', 'validate', 'XI432525179'), ev('vatin', 'validate', 'GB432525179')),
    (ev('util', 'get_cc_module', 'be', 'vat'), ev('util', 'get_cc_module', 'be', 'iban')),
]
# numbers that pass the generic rules of a wrapper but fail in the national module (correct IBAN check digits over a BBAN
# with wrong national check digits)
FAILING_INPUTS = {'stdnum.iban': ['ES1512341234171234567890', 'ES2121000418450200051331']}
IMPORT_RACE_PAIRS = [
    # a nationally invalid IBAN (generic rules fine, wrong CCC check digits) while the national module is being imported
    (ev('iban', 'validate', 'ES7712341234161234567890'), ev('iban', 'is_valid', 'ES1512341234171234567890')),
    (ev('iban', 'validate', 'BE31435411161155'), ev('iban', 'is_valid', 'BE31435411161155')),
    (ev('eu.vat', 'validate', 'XI432525179'), ev('vatin', 'validate', 'GB432525179')),
    (ev('vatin', 'validate', 'DE136695976'), ev('eu.vat', 'is_valid', 'DE136695976')),
    (ev('util', 'get_cc_module', 'gb', 'vat'), ev('vatin', 'is_valid', 'GB432525179')),
    (ev('iban', 'validate', 'ES7712341234161234567890'), ev('util', 'get_cc_module', 'es', 'iban')),
    (ev('eu.vat', 'validate', 'SE556043606401'), ev('eu.vat', 'validate', 'SE556043606401')),
]


def plan(ctx):
    t = ctx['tier']
    quick = t != 'thorough'
    F = focus_events()
    items = [('focus2', i, t) for i in range(len(F))]
    items += [('containers', i, t) for i in range(8)]
    items += [('pairs', i, t) for i in range(32)]
    items += [('clock', 0, t)]
    items += [('sched', i, t) for i in range(len(SCHEDULE_PAIRS))]
    items += [('import-race', i, t) for i in range(len(IMPORT_RACE_PAIRS) if not quick else 4)]
    items += [('crosscheck', 0, t)]
    items += [('intra', i, t) for i in range(16)]
    items += [('gs1-order', i, t) for i in range(8)]
    items += [('steady', i, t) for i in range(16)]
    items += [('opt-order', i, t) for i in range(8)]
    items += [('twice', i, t) for i in range(16)]
    items += [('one-vs-all', i, t) for i in range(16)]
    items += [('reg-siblings', i, t) for i in range(16)]
    items += [('hashseed', 0, t)]
    if not quick:
        items += [('focus3', i, t) for i in range(len(F))]
        items += [('sched3', 0, t)]
    return items


_pristine = {}


def pristine(event, clk=None):
    k = (event, clk)
    if k not in _pristine:
        _pristine[k] = e4.run_history([('call', event)], clk)[0]
    return _pristine[k]


def check_history(res, hist, kind, clk=None, clock_after=None):
    """Run one history, compare every call with its pristine observation (under the clock in force at that call)."""
    obs = e4.run_history(hist, clk)
    i = 0
    cur = clk
    bad = 0
    for step in hist:
        if step[0] == 'clock':
            cur = step[1]
        if step[0] != 'call':
            continue
        exp = pristine(step[1], cur)
        if obs[i] != exp:
            bad += 1
            kinds = [s[0] if s[0] != 'call' else 'call:%s.%s' % (s[1][0], s[1][1]) for s in hist]
            res.viol(ID, 'history-changes-result', step[1][0], step[1][1],
                     {'kind': 'history', 'history': _enc_hist(hist), 'clock': clk.isoformat() if clk else None, 'index': i},
                     'call %d of the history returned %r, in a fresh state it returns %r' % (i, obs[i], exp),
                     'pristine observation', excinfo=obs[i][0] + ('/' + str(obs[i][1]) if obs[i][0] == 'raise' else ''),
                     devclass='>'.join(kinds), rank=[len(hist), i, repr(hist)])
        i += 1
    return bad


def _enc_hist(hist):
    out = []
    for s in hist:
        if s[0] == 'call':
            m, f, a, k = s[1]
            out.append(['call', m, f, list(a), [list(x) for x in k]])
        elif s[0] == 'clock':
            out.append(['clock', s[1].isoformat()])
        else:
            out.append(['mutate'])
    return out


def _dec_hist(h):
    out = []
    for s in h:
        if s[0] == 'call':
            out.append(('call', (s[1], s[2], tuple(s[3]), tuple(tuple(x) for x in s[4]))))
        elif s[0] == 'clock':
            out.append(('clock', datetime.date.fromisoformat(s[1])))
        else:
            out.append(('mutate',))
    return out


def watched_codes():
    e4.purge()
    import importlib
    import types
    out = set()
    for mn, skip in (('stdnum.util', ('get_number_modules', '_mk_char_map')), ('stdnum.numdb', ('read', '_parse', '_find'))):
        try:
            m = importlib.import_module(mn)
        except Exception:
            continue
        for k, v in vars(m).items():
            if isinstance(v, types.FunctionType) and v.__module__ == mn and k not in skip:
                out.add(v.__code__)
    for mn, fn in (('stdnum.numdb', 'get'), ('stdnum.util', 'get_cc_module'), ('stdnum.iban', '_get_cc_module'),
                   ('stdnum.eu.vat', '_get_cc_module'), ('stdnum.vatin', '_get_cc_module'), ('stdnum.numdb', 'read')):
        try:
            f = getattr(importlib.import_module(mn), fn)
            if fn != 'read':
                out.add(f.__code__)
        except Exception:
            pass
    return out


def explore_pair(res, pair, bound, module_code, kind, max_execs, nthreads=2):
    events = list(pair) if nthreads == 2 else list(pair) + [pair[0]]
    exp = [pristine(e) for e in events]
    watched = watched_codes() if not module_code else set()
    if not module_code and any(not str(a).isascii() for e in events for a in e[2]):
        # the look-alike pair: the clean-up table builder is watched too (a lazily built table is first-use state)
        import importlib
        u = importlib.import_module('stdnum.util')
        if hasattr(u, '_mk_char_map'):
            watched.add(u._mk_char_map.__code__)
        bound = min(bound, 1)
    # warm up: third-party / stdlib imports happen once, outside the explored executions
    e4.purge()
    for e in events:
        e4.call(e)
    stats = {'touch': 0}

    def mk():
        return [lambda e=e: e4.call(e)[0] for e in events]

    def check(results, taken, sched):
        bad = [i for i in range(len(events)) if results.get(i) != exp[i]]
        after = [e4.call(e)[0] for e in events]
        bad_after = [i for i in range(len(events)) if after[i] != exp[i]]
        if len(set(sched.trace)) > 1 and any(sched.trace[j] != sched.trace[j + 1] for j in range(len(sched.trace) - 1)):
            stats['touch'] += 1
        if bad or bad_after:
            i = (bad or bad_after)[0]
            got = results.get(i) if bad else after[i]
            res.viol(ID, 'schedule-changes-result' if bad else 'state-after-schedule-differs', events[i][0], events[i][1],
                     {'kind': kind, 'events': [_enc_hist([('call', e)])[0] for e in events], 'schedule': taken, 'module_code': module_code},
                     'under schedule %r thread %d observed %r, sequentially it is %r' % (taken[:40], i, got, exp[i]),
                     'pristine observation', excinfo=got[0] + ('/' + str(got[1]) if got[0] == 'raise' else ''),
                     devclass='%s:%s.%s|%s.%s' % (kind, events[0][0], events[0][1], events[1][0], events[1][1]),
                     rank=[sum(1 for c in taken if c), len(taken), repr(taken)])
        return repr(sorted(results.items()))
    n, outcomes, capped = e4.explore_schedules(mk, watched, bound, e4.purge, check, max_execs=max_execs,
                                               watch_module_code=module_code)
    for k, cnt in outcomes.items():
        if k.startswith('<anomaly>'):
            # the same schedule failed three times inside the scheduler (deadlock: no thread can run): that is an
            # observable failure of the calls under this interleaving
            res.viol(ID, 'schedule-deadlock', events[0][0], events[0][1],
                     {'kind': kind, 'events': [_enc_hist([('call', e)])[0] for e in events], 'schedule': [], 'module_code': module_code},
                     '%s (%d schedules)' % (k, cnt), 'both calls complete', excinfo='deadlock',
                     devclass='%s:%s.%s|%s.%s' % (kind, events[0][0], events[0][1], events[1][0], events[1][1]))
    res['extra']['diverged_prefixes'] = res['extra'].get('diverged_prefixes', 0) + outcomes.get('<diverged>', 0)
    return n, outcomes, capped, stats['touch']


def module_digest(name, as_dict=False):
    """Repr of every module-level object of a module (and of instances reachable from them, depth 3) except functions,
    classes and modules: changes when a call leaves a trace in module-level state."""
    import types
    m = sys.modules.get(name)
    parts = []

    def walk(o, depth):
        if depth > 6:
            return '...'
        if isinstance(o, dict):
            return '{%s}' % ','.join('%r:%s' % (k, walk(v, depth + 1)) for k, v in list(o.items())[:2000])
        if isinstance(o, (list, tuple, set, frozenset)):
            return '[%s]' % ','.join(walk(v, depth + 1) for v in list(o)[:2000])
        if isinstance(o, (str, int, float, bool, type(None), bytes)):
            return repr(o)
        if isinstance(o, (types.FunctionType, types.ModuleType, type, types.BuiltinFunctionType)):
            return type(o).__name__
        if type(o).__module__.startswith('stdnum') or hasattr(o, '__dict__'):
            return '<%s %s>' % (type(o).__name__, walk(getattr(o, '__dict__', {}), depth + 1))
        return repr(o)      # iterators, compiled patterns, ...: repr changes when the object is replaced
    for k, v in sorted(vars(m).items()):
        if k.startswith('__'):
            continue
        if isinstance(v, (types.FunctionType, types.ModuleType, type)):
            continue
        if type(v).__name__ == 'NumDB':
            parts.append((k, len(v.prefixes)))
            continue
        parts.append((k, walk(v, 0)))
    if as_dict:
        return dict(parts)
    return repr(parts)


def _steady(res, name, events, quick):
    """Warm up, then see whether calls still change module-level state; if so explore the two-thread schedules."""
    import types
    e4.purge()
    seq = []
    for e in events:
        e4.call(e)
    d0 = module_digest(name)
    changed = False
    for e in events:
        seq.append(e4.call(e)[0])
        if module_digest(name) != d0:
            changed = True      # a call in steady state left a trace in module-level state
    if not changed:
        return 1, 0
    m = sys.modules[name]
    watched = set()
    for k, v in vars(m).items():
        if isinstance(v, types.FunctionType) and v.__module__ == name:
            watched.add(v.__code__)
        elif isinstance(v, type) and v.__module__ == name:
            for kk, vv in vars(v).items():
                if isinstance(vv, types.FunctionType):
                    watched.add(vv.__code__)
    cnt = {'n': 0}

    def mk():
        return [lambda e=e: e4.call(e)[0] for e in events]

    def check(results, taken, sched):
        cnt['n'] += 1
        bad = [i for i in range(len(events)) if results.get(i) != seq[i]]
        if bad:
            i = bad[0]
            got = results.get(i)
            res.viol(ID, 'schedule-changes-result', events[i][0], events[i][1],
                     {'kind': 'steady', 'events': [_enc_hist([('call', e)])[0] for e in events], 'schedule': taken, 'module_code': False},
                     'two threads in steady state: under schedule %r thread %d observed %r, sequentially it is %r' % (taken[:40], i, got, seq[i]),
                     'sequential observation', excinfo=(got or ('none',))[0] + ('/' + str(got[1]) if got and got[0] == 'raise' else ''),
                     devclass='steady:%s.%s' % (events[0][0], events[0][1]), rank=[sum(1 for c in taken if c), len(taken), repr(taken)])
        return repr(sorted(results.items()))
    execs, outcomes, capped = e4.explore_schedules(mk, watched, 2, lambda: None, check, max_execs=400 if quick else 4000,
                                                   watch_module_code=False)
    # the same with a scheduling point at every bytecode instruction and one preemption (races inside one line)
    e4.prime_opcodes(watched, lambda: [e4.call(e) for e in events])
    execs2, outcomes2, capped2 = e4.explore_schedules(mk, watched, 1, lambda: None, check, max_execs=300 if quick else 3000,
                                                      watch_module_code=False, horizon=40000, opcodes=True)
    res['extra'].setdefault('steady_state_mutators', {})['%s.%s' % (name, events[0][1])] = execs + execs2
    return execs + execs2, execs + execs2


class _GlobalsWatch:
    """Scheduling points at every line of the functions of one source file that name one of the given module-level
    attributes (the state that the first call initialises); code objects change with every fresh import, file and
    names do not."""

    def __init__(self, path, names):
        self.path = path
        self.names = set(names)

    def __contains__(self, code):
        return code.co_filename == self.path and code.co_name != '<module>' and bool(self.names & set(code.co_names))


class _FileWatch:
    """Scheduling points at every line of the named functions defined in one source file (code objects change with
    every fresh import, the file does not)."""

    def __init__(self, path):
        self.path = path

    def __contains__(self, code):
        # generator expressions / comprehensions / lambdas run as one step (the first-use windows are between the
        # statements of named functions; the steady-state harness has the full granularity)
        return code.co_filename == self.path and not code.co_name.startswith('<')


def _firstuse(res, name, fn, inputs, quick):
    """Lazy initialisation inside a module: if the first call leaves a trace in the module's own module-level state,
    the two-thread schedules of [fn(a) || fn(b)] are explored from the freshly imported module (the import itself is
    done by the main thread), every thread compared with its answer in a fresh state."""
    import importlib
    e4.purge()
    try:
        importlib.import_module(name)
    except Exception:
        return 0, 0
    d0 = module_digest(name, True)
    e4.call((name, fn, (inputs[0],), ()))
    d1 = module_digest(name, True)
    changed = sorted(k for k in set(d0) | set(d1) if d0.get(k) != d1.get(k))
    if not changed:
        return 1, 0
    path = sys.modules[name].__file__
    total = 0
    for b in inputs[:24 if quick else 30]:
        events = [(name, fn, (inputs[0],), ()), (name, fn, (b,), ())]
        exp = [pristine(e) for e in events]

        def mk():
            return [lambda e=e: e4.call(e)[0] for e in events]

        def reset():
            e4.purge()
            importlib.import_module(name)

        def check(results, taken, sched):
            bad = [i for i in range(2) if results.get(i) != exp[i]]
            if bad:
                i = bad[0]
                got = results.get(i)
                res.viol(ID, 'schedule-changes-result', events[i][0], events[i][1],
                         {'kind': 'firstuse', 'events': [_enc_hist([('call', e)])[0] for e in events], 'schedule': taken},
                         'two threads, first use of the module: under schedule %r thread %d observed %r, in a fresh state it is %r' % (taken[:40], i, got, exp[i]),
                         'fresh-state observation', excinfo=(got or ('none',))[0] + ('/' + str(got[1]) if got and got[0] == 'raise' else ''),
                         devclass='firstuse:%s.%s' % (name, fn), rank=[sum(1 for c in taken if c), len(taken), repr(taken)])
            return repr(sorted(results.items()))
        execs, outcomes, capped = e4.explore_schedules(mk, _GlobalsWatch(path, changed), 2, reset, check,
                                                       max_execs=400 if quick else 500, watch_module_code=False, horizon=20000)
        if capped:
            res['extra'].setdefault('caps_hit', {})['firstuse:%s' % name] = execs
        total += execs
    res['extra'].setdefault('first_use_mutators', {})['%s.%s %s' % (name, fn, ','.join(changed))] = total
    return total, total


def _hashseed_events():
    """Calls that return containers (their order must not depend on the interpreter's string hashing): every public
    one-argument function that returns a list / dict / tuple on a documented number, and the guessers on the bare
    documented numbers of every EU VAT module."""
    evs = [ev(mn, fn, v) for mn, fn, v in container_events()]
    from . import c09
    for cc, mn in sorted(c09.EU.items()):
        for s_, v in seedmod.seeds('stdnum.' + mn, 2):
            bare = v[2:] if v.upper().startswith(cc) else v
            evs.append(ev('eu.vat', 'guess_country', bare))
    for name, m in core.modules().items():
        for fn in sorted(vars(m)):
            if fn.startswith('guess_') and inspect.isfunction(getattr(m, fn)) and name != 'stdnum.eu.vat':
                for s_, v in seedmod.seeds(name, 4):
                    evs.append((name, fn, (v,), ()))
    return list(dict.fromkeys(evs))


def _hashseed(res, evs, menu=('0', '1', '2', '3')):
    import json
    import os
    code = ('import sys, json, warnings; warnings.simplefilter("ignore"); sys.path.insert(0, %r); sys.path.insert(0, %r)\n'
            'from vp import e4\nE = json.loads(sys.stdin.read())\n'
            'out = []\n'
            'for e in E:\n'
            '    e4.purge()\n'
            '    o, _ = e4.call((e[0], e[1], tuple(e[2]), tuple(tuple(x) for x in e[3])))\n'
            '    out.append(repr(o))\n'
            'print(json.dumps(out))\n') % (core.REPO, core.VERIF)
    payload = json.dumps([[e[0], e[1], list(e[2]), [list(x) for x in e[3]]] for e in evs])
    outs = {}
    for hs in menu:
        env = dict(os.environ, PYTHONHASHSEED=hs)
        p = subprocess.run([sys.executable, '-X', 'utf8', '-c', code], input=payload, capture_output=True, text=True, timeout=900, env=env)
        if p.returncode != 0 or not p.stdout.strip():
            raise RuntimeError('hash seed harness failed: ' + p.stderr[-300:])
        outs[hs] = json.loads(p.stdout)
    nt = 0
    for i, e in enumerate(evs):
        got = {hs: outs[hs][i] for hs in menu}
        if len(set(got.values())) > 1:
            nt += 1
            res.viol(ID, 'hash-seed-changes-result', e[0], e[1], {'kind': 'hashseed', 'events': [_enc_hist([('call', e)])[0]]},
                     '%s.%s(%r) in fresh interpreters: %s' % (e[0], e[1], e[2][0], '; '.join('PYTHONHASHSEED=%s -> %s' % kv for kv in sorted(got.items()))),
                     'the same answer in every fresh interpreter', excinfo='', devclass='hashseed', rank=[0, len(repr(e)), repr(e)])
    res['extra']['hash_seeds'] = list(menu)
    return len(evs) * len(menu), nt


def _steady_ws(res, name, fn, W, quick):
    """Steady state with a large working set: after the function has been called on every documented number (bounded
    caches are full), do calls on the first two still change module-level state?  If so, the two-thread schedules of
    those two calls after that warm-up are explored (scheduling points in the functions naming the changed state)."""
    import importlib

    def reset():
        e4.purge()
        for w in W:
            e4.call((name, fn, (w,), ()))
    reset()
    d0 = module_digest(name, True)
    events = [(name, fn, (W[0],), ()), (name, fn, (W[1],), ())]
    for e in events:
        e4.call(e)
    d1 = module_digest(name, True)
    changed = sorted(k for k in set(d0) | set(d1) if d0.get(k) != d1.get(k))
    if not changed:
        return 1, 0
    exp = [pristine(e) for e in events]
    path = sys.modules[name].__file__

    def mk():
        return [lambda e=e: e4.call(e)[0] for e in events]

    def check(results, taken, sched):
        bad = [i for i in range(2) if results.get(i) != exp[i]]
        if bad:
            i = bad[0]
            got = results.get(i)
            res.viol(ID, 'schedule-changes-result', events[i][0], events[i][1],
                     {'kind': 'steady-ws', 'events': [_enc_hist([('call', e)])[0] for e in events], 'schedule': taken,
                      'warmup': list(W)},
                     'two threads after %d warm-up calls: under schedule %r thread %d observed %r, in a fresh state it is %r' % (len(W), taken[:40], i, got, exp[i]),
                     'fresh-state observation', excinfo=(got or ('none',))[0] + ('/' + str(got[1]) if got and got[0] == 'raise' else ''),
                     devclass='steady-ws:%s.%s' % (name, fn), rank=[sum(1 for c in taken if c), len(taken), repr(taken)])
        return repr(sorted(results.items()))
    execs, outcomes, capped = e4.explore_schedules(mk, _GlobalsWatch(path, changed), 2, reset, check,
                                                   max_execs=300 if quick else 3000, watch_module_code=False, horizon=20000)
    # ... and with a scheduling point at every bytecode instruction of those functions, one preemption (a race inside
    # one source line: `del d[next(iter(d))]`)
    gw = _GlobalsWatch(path, changed)

    def reset2():
        reset()
        # one more round of the two calls with instruction tracing on, so that the code objects are instrumented
        e4.prime_opcodes(gw, lambda: [e4.call(e) for e in events + [(name, fn, (w,), ()) for w in W[2:]]])
    execs2, outcomes2, capped2 = e4.explore_schedules(mk, gw, 1, reset2, check,
                                                      max_execs=400 if quick else 4000, watch_module_code=False, horizon=40000,
                                                      opcodes=True)
    res['extra'].setdefault('working_set_mutators', {})['%s.%s %s' % (name, fn, ','.join(changed))] = execs + execs2
    if capped or capped2:
        res['extra'].setdefault('caps_hit', {})['steady-ws:%s' % name] = execs + execs2
    return execs + execs2, execs + execs2


_battery_cache = []


def _battery():
    if not _battery_cache:
        ai = {str(i): chr(0x660 + i) for i in range(10)}
        for name in core.modules():
            sv = seedmod.seeds(name, 1)
            if not sv:
                continue
            s0 = sv[0][0]
            _battery_cache.append((name, 'validate', (s0,), ()))
            if any(c.isdigit() for c in s0):
                _battery_cache.append((name, 'validate', (''.join(ai.get(c, c) for c in s0),), ()))
    return _battery_cache


def _battery_run(first, battery):
    e4.purge()
    if first is not None:
        e4.call(first)
    return [e4.call(e)[0] for e in battery]


def work(item):
    kind, idx, tier = item
    res = Result()
    quick = tier != 'thorough'
    clock.install()
    n = nt = 0
    F = focus_events()
    if kind == 'focus2':
        a = F[idx]
        for b in F:
            n += 1
            bad = check_history(res, [('call', a), ('call', b)], kind)
            nt += 1 if a[0] == b[0] or a[0] in ('stdnum.eu.vat', 'stdnum.vatin', 'stdnum.iban', 'stdnum.util') else 0
            n += 1
            check_history(res, [('call', a), ('mutate',), ('call', b)], kind)
        res['samples'].append({'history': _enc_hist([('call', a), ('mutate',), ('call', F[(idx + 1) % len(F)])])})
    elif kind == 'focus3':
        a = F[idx]
        sub = F[::2]
        for b in sub:
            for c in sub:
                n += 1
                check_history(res, [('call', a), ('call', b), ('mutate',), ('call', c)], kind)
                nt += 1
    elif kind == 'containers':
        C = container_events()
        for j, (mn, fn, v) in enumerate(C):
            if j % 8 != idx:
                continue
            e = ev(mn, fn, v)
            others = [x for x in C if x[0] == mn and x[1] != fn][:3]
            n += 1
            nt += 1
            check_history(res, [('call', e), ('mutate',), ('call', e)], kind)
            n += 1
            check_history(res, [('call', e), ('mutate',), ('call', ev(mn, 'validate', v)), ('call', e)], kind)
            for o in others:
                n += 1
                check_history(res, [('call', e), ('mutate',), ('call', ev(o[0], o[1], o[2]))], kind)
        res['extra']['container_returning_functions'] = len(C)
        if idx == 0 and C:
            res['samples'].append({'history': _enc_hist([('call', ev(*C[0])), ('mutate',), ('call', ev(*C[0]))])})
    elif kind == 'pairs':
        mods = list(core.modules())
        evs = {}
        for name in mods:
            sv = seedmod.seeds(name, 1)
            if sv:
                evs[name] = (name, 'validate', (sv[0][0],), ())
        names = sorted(evs)
        cnt = 0
        for a in names:
            for b in names:
                if quick and a not in STATEFUL and b not in STATEFUL:
                    continue
                cnt += 1
                if cnt % 32 != idx:
                    continue
                n += 1
                nt += 1 if (a in STATEFUL and b in STATEFUL) else 0
                check_history(res, [('call', evs[a]), ('call', evs[b])], kind)
        res['extra']['module_pairs_all'] = not quick
    elif kind == 'clock':
        d1, d2 = datetime.date(1999, 12, 31), datetime.date(2038, 1, 19)
        for name, m in core.modules().items():
            src = None
            try:
                src = inspect.getsource(m)
            except Exception:
                pass
            if not src or 'today()' not in src and 'now()' not in src:
                if name not in ('stdnum.be.bis', 'stdnum.be.ssn'):
                    continue
            sv = seedmod.seeds(name, 6)
            vals = [v for s, v in sv]
            try:
                from .. import e2
                vals += [x for x in e2.valid_set(name, m, 'quick', nseeds=2, cap=6)[0] if x not in vals]
                # numbers that carry special dates (two-digit years on both sides of the clock answers)
                from .. import synth
                dn = [x for x in synth.date_numbers(name, m, sv) if e2._accepts(m, x, {}) and x not in vals]
                vals += dn[::max(1, len(dn) // 12)][:12]
            except Exception:
                pass
            for v in vals:
                for fn in ('validate', 'get_birth_date', 'get_birth_year', 'is_valid'):
                    if not hasattr(m, fn):
                        continue
                    e = (name, fn, (v,), ())
                    # the process starts (and imports the module) at da, then the clock moves on: 1999 -> 2038 -> 1999
                    # and 1970 -> 2038 -> 1970 (documented numbers dated between the two)
                    for da in (d1, datetime.date(1970, 1, 1)):
                        n += 1
                        nt += 1
                        check_history(res, [('call', e), ('clock', d2), ('call', e), ('clock', da), ('call', e)], kind, clk=da)
    elif kind in ('sched', 'sched3'):
        if kind == 'sched':
            pair = SCHEDULE_PAIRS[idx]
            bound = 2 if quick else 4
            slow = any(e[0] == 'stdnum.mac' for e in pair)       # oui.dat takes ~0.2 s to load in every execution
            execs, outcomes, capped, touch = explore_pair(res, pair, 1 if slow else bound, False, 'sched',
                                                          (60 if slow else 3000) if quick else (600 if slow else 12000))
        else:
            pair = SCHEDULE_PAIRS[0]
            execs, outcomes, capped, touch = explore_pair(res, pair, 2, False, 'sched', 1200, nthreads=3)     # oui.dat is loaded in every execution (0.3 s)
        n += execs
        nt += touch
        res['extra']['schedule_outcome_classes'] = {'%s|%s' % (pair[0][1] + pair[0][2][0][:6], pair[1][1] + pair[1][2][0][:6]): len(outcomes)}
        if capped:
            res['extra'].setdefault('caps_hit', {})['sched:%d' % idx] = execs
        res['samples'].append({'threads': [_enc_hist([('call', e)])[0] for e in pair], 'executions': execs})
    elif kind == 'import-race':
        pair = IMPORT_RACE_PAIRS[idx]
        execs, outcomes, capped, touch = explore_pair(res, pair, 1, True, 'import-race', 400 if quick else 3000)
        n += execs
        nt += touch
        if capped:
            res['extra'].setdefault('caps_hit', {})['import-race:%d' % idx] = execs
        res['extra']['import_race_executions'] = execs
    elif kind == 'intra':
        # same module, different inputs: [f(x1), f(x2)] and [validate(x1), f(x2)] for the module's public functions
        for j, (name, m) in enumerate(core.modules().items()):
            if j % 16 != idx:
                continue
            vals = list(dict.fromkeys(v for s_, v in seedmod.seeds(name, 4 if quick else 8)))
            if name == 'stdnum.mac':
                vals = vals[:2]         # 4 ms per registry lookup
            fns = ['validate', 'is_valid'] + [f for f in ('format', 'compact', 'split', 'info') if hasattr(m, f)]
            fns += [f for f in sorted(vars(m)) if f.startswith(('get_', 'to_', 'calc_')) and inspect.isfunction(getattr(m, f))
                    and len([p for p in inspect.signature(getattr(m, f)).parameters.values()
                             if p.default is inspect.Parameter.empty]) == 1][:6]
            if len(vals) < 1:
                continue
            for fn in fns:
                for a in vals:
                    for b in vals:
                        # a == b: the same call repeated (memoised results that the first call damaged)
                        n += 1
                        nt += 1
                        check_history(res, [('call', (name, fn, (a,), ())), ('call', (name, fn, (b,), ()))], kind)
                if fn not in ('validate', 'is_valid'):
                    # documented spellings too: the punctuation may select the sub-type that validate() remembers
                    both = list(dict.fromkeys(vals[:3] + [s_ for s_, v in seedmod.seeds(name, 4 if quick else 8)]))
                    if name == 'stdnum.mac':
                        both = both[:3]
                    else:
                        # near misses: the first character replaced (an unknown type letter / leading digit): a call that
                        # fails, or a helper fed such a number, must leave nothing behind
                        from ..e2 import same_class
                        v0 = vals[0]
                        for nm in [c + v0[1:] for c in same_class(v0[0])[:3] if c != v0[0]][:2]:
                            for hist in ([(fn, nm), ('validate', nm), (fn, nm)], [('validate', nm), (fn, nm)],
                                         [(fn, nm), ('validate', v0)], [('validate', nm), (fn, v0)]):
                                n += 1
                                check_history(res, [('call', (name, f_, (x_,), ())) for f_, x_ in hist], kind)
                    for a in both:
                        for b in both:
                            n += 1
                            check_history(res, [('call', (name, 'validate', (a,), ())), ('call', (name, fn, (b,), ()))], kind)
                            n += 1
                            check_history(res, [('call', (name, fn, (a,), ())), ('call', (name, 'validate', (b,), ())),
                                                ('call', (name, fn, (a,), ()))], kind)
    elif kind == 'reg-siblings':
        # numbers in sibling entries of one registry (same parent prefix, different nested entry): [f(a), f(b)] for
        # all ordered pairs of each group -- a lookup cache keyed by the parent prefix answers b with a's entry
        from .. import synth
        for j, (name, m) in enumerate(core.modules().items()):
            if j % 16 != idx:
                continue
            sv = seedmod.seeds(name, 2)
            fns = ['validate'] + [f for f in ('format', 'split', 'info') if hasattr(m, f)]
            fns += [f for f in sorted(vars(m)) if f.startswith(('get_', 'to_', 'guess_')) and inspect.isfunction(getattr(m, f))
                    and len([p for p in inspect.signature(getattr(m, f)).parameters.values()
                             if p.default is inspect.Parameter.empty]) == 1][:6]
            e4.purge()      # a fresh module object: the registry names are recorded from its first lookups
            try:
                import importlib
                groups = synth.registry_siblings(name, importlib.import_module(name), sv, fns, parents=3 if quick else 12)
            except Exception:
                groups = []
            e4.purge()
            for g in groups:
                for fn in fns:
                    for a in g:
                        for b in g:
                            if a != b:
                                n += 1
                                nt += 1
                                check_history(res, [('call', (name, fn, (a,), ())), ('call', (name, fn, (b,), ()))], kind)
    elif kind == 'gs1-order':
        # order dependence inside the GS1 codec: one element string per format class (variable-length AI first, no
        # separator, so that padding code runs), all ordered pairs of classes
        from . import c16
        tab = c16.table()
        cl = c16.classes(tab)
        keys = sorted(cl)
        strings = []
        for k in keys:
            ai = cl[k][0]
            ws = c16._wit(ai, k[0], k[1], True)
            if not ws:
                continue
            w = ws[-1]
            strings.append('(%s)%s(90)X' % (ai, w))
        cnt = 0
        for a in strings:
            for b in strings:
                cnt += 1
                if cnt % 8 != idx:
                    continue
                n += 1
                nt += 1
                check_history(res, [('call', ('stdnum.gs1_128', 'validate', (a,), ())),
                                    ('call', ('stdnum.gs1_128', 'validate', (b,), ()))], kind)
        res['extra']['gs1_order_strings'] = len(strings)
    elif kind == 'steady':
        # steady-state races: a module whose module-level objects still change after a warm-up call gets its two-thread
        # interleavings explored at line granularity of all its own functions and methods
        import types
        from ..tables.options import option_sets
        from .. import e2
        for j, (name, m0) in enumerate(core.modules().items()):
            if j % 16 != idx:
                continue
            vals = list(dict.fromkeys(v for s_, v in seedmod.seeds(name, 3)))
            if len(vals) < 1:
                continue
            if len(vals) == 1:
                vals = vals * 2
            fns = [f for f in ('validate', 'format', 'compact') if hasattr(m0, f)]
            fns += [f for f in sorted(vars(m0)) if f.startswith(('to_', 'get_', 'calc_')) and inspect.isfunction(getattr(m0, f))
                    and len([p for p in inspect.signature(getattr(m0, f)).parameters.values()
                             if p.default is inspect.Parameter.empty]) == 1][:5]
            # a close neighbour of the first seed (same length and shape: same internal tables / format objects)
            try:
                near = [x for x in e2.valid_set(name, m0, 'quick', nseeds=1, cap=40)[0] if x != vals[0] and len(x) == len(vals[0])]
                # the one that shares the longest head with the seed (same region / type: same internal objects)
                near.sort(key=lambda x: (-len(os.path.commonprefix([x, vals[0]])), x))
            except Exception:
                near = []
            # lazy initialisation: first use of the module from two threads (documented spellings and table entries)
            spell = list(dict.fromkeys([x for sv_ in seedmod.seeds(name, 12) for x in sv_]))
            try:
                from .. import synth
                spell += [x for x in synth.table_inputs(name, m0, seedmod.seeds(name, 2), limit=6) if x not in spell]
            except Exception:
                pass
            if spell:
                n0, t0 = _firstuse(res, name, 'validate', spell, quick)
                n += n0
                nt += t0
            # bounded caches: steady state after the whole documented working set
            W = list(dict.fromkeys(v for s_, v in seedmod.seeds(name)))[:120]
            if len(W) >= 6 and name != 'stdnum.mac':
                n0, t0 = _steady_ws(res, name, 'validate', W, quick)
                n += n0
                nt += t0
            for fn in fns:
                events = [(name, fn, (vals[0],), ()), (name, fn, (vals[1],), ())]
                if near:
                    n0, t0 = _steady(res, name, [(name, fn, (vals[0],), ()), (name, fn, (near[0],), ())], quick)
                    n += n0
                    nt += t0
                # both threads with the same number (whatever object the call shares is certainly shared)
                n0, t0 = _steady(res, name, [(name, fn, (vals[0],), ()), (name, fn, (vals[0],), ())], quick)
                n += n0
                nt += t0
                # option variants: the second thread uses a non-default option with a number valid under it
                f0 = getattr(m0, fn)
                for o in option_sets(name, f0, m0.validate)[0][1:3]:
                    try:
                        vv, _st = e2.valid_set(name, m0, 'quick', nseeds=2, kw=o, cap=3)
                    except Exception:
                        vv = []
                    if 'alphabet' in o and isinstance(o['alphabet'], str):
                        # a number that uses the characters only this alphabet has
                        from .. import synth
                        al = o['alphabet']
                        for tail in al:
                            cand = al[-1] * 2 + al[-2] + al[len(al) // 2] + tail
                            if e2._accepts(m0, cand, o):
                                vv = [cand] + list(vv)
                                break
                    if vv:
                        events_o = [events[0], (name, fn, (vv[0],), tuple(sorted(o.items())))]
                        n0, t0 = _steady(res, name, events_o, quick)
                        n += n0
                        nt += t0
                n0, t0 = _steady(res, name, events, quick)
                n += n0
                nt += t0
    elif kind == 'twice':
        # one fresh state per module; a battery of calls (every public one-argument function x seeds, short digit
        # strings, valid neighbours) is executed twice in that state: the second pass must repeat the first
        from .. import e2, e1
        for j, (name, m0) in enumerate(core.modules().items()):
            if j % 16 != idx:
                continue
            inputs = list(dict.fromkeys([v for s_, v in seedmod.seeds(name, 6)] + [s_ for s_, v in seedmod.seeds(name, 3)]))
            try:
                inputs += [x for x in e2.valid_set(name, m0, 'quick', nseeds=2, cap=12)[0] if x not in inputs]
            except Exception:
                pass
            short = e1.short_strings('0123456789', 2) + ['A', 'AB', 'A1', '1A', 'X']
            fns = ['validate', 'is_valid'] + [f for f in ('format', 'compact', 'split', 'info') if hasattr(m0, f)]
            fns += [f for f in sorted(vars(m0)) if f.startswith(('get_', 'to_', 'calc_', 'guess_')) and inspect.isfunction(getattr(m0, f))
                    and len([p for p in inspect.signature(getattr(m0, f)).parameters.values()
                             if p.default is inspect.Parameter.empty]) == 1][:8]
            battery = [(name, fn, (x,), ()) for fn in fns for x in inputs] + [(name, 'validate', (x,), ()) for x in short]
            if name == 'stdnum.mac':
                battery = battery[:60]
            e4.purge()
            first = [e4.call(e)[0] for e in battery]
            second = [e4.call(e)[0] for e in battery]
            n += len(battery)
            nt += sum(1 for o in first if o[0] == 'ok')
            for e, o1, o2 in zip(battery, first, second):
                if o1 != o2:
                    # the replayable form: the battery prefix up to and including this call, then the call again
                    k = battery.index(e)
                    hist = [('call', b) for b in battery[:k + 1]] + [('call', b) for b in battery[:k + 1]]
                    res.viol(ID, 'repeat-changes-result', e[0], e[1],
                             {'kind': 'twice', 'module': name, 'event': _enc_hist([('call', e)])[0]},
                             'in one process %s.%s(%r) answered %r the first time and %r when the same sequence of calls was repeated' % (e[0], e[1], e[2][0], o1, o2),
                             'same answer', excinfo=o2[0] + ('/' + str(o2[1]) if o2[0] == 'raise' else ''),
                             devclass='twice:%s' % ('short' if e[2][0] in short else 'seed'), rank=[len(e[2][0]), k, repr(e)])
                    break
            # ... and every validate() answer inside the battery must be the answer of a state in which the module
            # has just been loaded (an earlier call of the battery must not have consumed or poisoned module data)
            sub = [(k, e) for k, e in enumerate(battery) if e[1] == 'validate' or not quick]
            for k, e in sub:
                sys.modules.pop(name, None)
                o0 = e4.call(e)[0]
                n += 1
                if o0 != first[k]:
                    if pristine(e) != o0:
                        continue        # the reload itself is not a fresh state for this call; other kinds cover it
                    res.viol(ID, 'battery-changes-result', e[0], e[1],
                             {'kind': 'twice', 'module': name, 'event': _enc_hist([('call', e)])[0]},
                             '%s.%s(%r) answers %r in a fresh state and %r after the %d earlier calls of the battery' % (e[0], e[1], e[2][0], o0, first[k], k),
                             'same answer', excinfo=first[k][0] + ('/' + str(first[k][1]) if first[k][0] == 'raise' else ''),
                             devclass='battery:%s' % ('short' if e[2][0] in short else 'seed'), rank=[len(e[2][0]), k, repr(e)])
                    break
        res['samples'].append({'history': 'battery of one-argument calls executed twice in one fresh state'})
    elif kind == 'opt-order':
        # the same function with different options in sequence (caches keyed too coarsely across alphabets / regions / tables)
        from ..tables.options import option_sets
        from .. import e2
        for j, (name, m0) in enumerate(core.modules().items()):
            if j % 8 != idx:
                continue
            for fn in [f for f in ('validate', 'is_valid', 'format', 'compact', 'calc_check_digit', 'to_country_number', 'to_regional_number',
                                   'guess_regions') if hasattr(m0, f)]:
                f0 = getattr(m0, fn)
                osets = option_sets(name, f0)[0]
                if len(osets) < 2:
                    continue
                evs = []
                for o in osets[:5]:
                    try:
                        vv, _st = e2.valid_set(name, m0, 'quick', nseeds=2, kw={k: v for k, v in o.items() if k in inspect.signature(m0.validate).parameters}, cap=2)
                    except Exception:
                        vv = []
                    if 'alphabet' in o and isinstance(o['alphabet'], str):
                        al = o['alphabet']
                        for tail in al:
                            cand = al[-1] * 2 + al[-2] + al[len(al) // 2] + tail
                            if e2._accepts(m0, cand, o):
                                vv = [cand] + list(vv)
                                break
                    for v in vv[:2]:
                        arg = v if not fn.startswith('calc_') else v[:-1]
                        evs.append((name, fn, (arg,), tuple(sorted(o.items()))))
                    # calls that fail: a mistyped number (one digit in the middle changed) and numbers that pass the generic
                    # rules only -- a failing call must not leave anything behind for the next call with other options
                    bad = []
                    if vv:
                        v = vv[0]
                        k = next((i for i in range(len(v) // 2, len(v)) if v[i].isdigit()), None)
                        if k is not None:
                            bad.append(v[:k] + str((int(v[k]) + 1) % 10) + v[k + 1:])
                    bad += FAILING_INPUTS.get(name, [])
                    for v in bad:
                        if not fn.startswith('calc_'):
                            evs.append((name, fn, (v,), tuple(sorted(o.items()))))
                for a in evs:
                    for b in evs:
                        n += 1
                        nt += 1
                        check_history(res, [('call', a), ('call', b), ('call', a)], kind)
    elif kind == 'one-vs-all':
        # import / first-use side effects of one module on all others: after one call into module A a fixed battery of
        # calls (every module: validate of a seed, and of the seed spelled with Arabic-Indic digits) must answer as it
        # does in a fresh state
        battery = _battery()
        base = _battery_run(None, battery)
        for j, (name, m0) in enumerate(core.modules().items()):
            if j % 16 != idx:
                continue
            sv = seedmod.seeds(name, 1)
            if not sv:
                continue
            first = (name, 'validate', (sv[0][0],), ())
            got = _battery_run(first, battery)
            n += 1
            nt += 1
            for e, o1, o2 in zip(battery, base, got):
                if o1 != o2:
                    # confirm as a two-step history on a fresh state (the battery itself is not the culprit)
                    check_history(res, [('call', first), ('call', e)], kind)
        res['extra']['battery_calls'] = len(battery)
    elif kind == 'hashseed':
        n, nt = _hashseed(res, _hashseed_events())
    elif kind == 'crosscheck':
        # pristine-by-purge vs a real fresh interpreter, for the focus events
        import json
        evs = F if not quick else F[::4]
        code = ('import sys, json, warnings; warnings.simplefilter("ignore"); sys.path.insert(0, %r); sys.path.insert(0, %r)\n'
                'from vp import e4\nimport json\nE = json.loads(sys.stdin.read())\n'
                'out = []\n'
                'for e in E:\n'
                '    e4.purge()\n'
                '    o, _ = e4.call((e[0], e[1], tuple(e[2]), tuple(tuple(x) for x in e[3])))\n'
                '    out.append(repr(o))\n'
                'print(json.dumps(out))\n') % (core.REPO, core.VERIF)
        for e in evs:
            p = subprocess.run([sys.executable, '-X', 'utf8', '-c', code], input=json.dumps([[e[0], e[1], list(e[2]), [list(x) for x in e[3]]]]),
                               capture_output=True, text=True, timeout=300)
            n += 1
            got = json.loads(p.stdout)[0] if p.returncode == 0 and p.stdout.strip() else 'subprocess failed: ' + p.stderr[-200:]
            if got != repr(pristine(e)):
                raise RuntimeError('purge-based fresh state differs from a fresh interpreter for %r: %s vs %r' % (e, got, pristine(e)))
        res['extra']['fresh_process_crosscheck'] = n
    res['states'] = n
    res['transitions'] = n * 2
    res['evaluations'] = n
    res['impl_execs'] = n
    res['nontrivial'] = nt
    res['extra']['by_kind'] = {kind: n}
    return res


def replay(case):
    res = Result()
    clock.install()
    if case['kind'] == 'history':
        hist = _dec_hist(case['history'])
        clk = datetime.date.fromisoformat(case['clock']) if case.get('clock') else None
        check_history(res, hist, 'replay', clk)
        for v in res['violations']:
            v['sig'] = None
        return [dict(v, sig=_resig(v, case)) for v in res['violations']][:1]
    if case['kind'] == 'twice':
        names = list(core.modules())
        j = names.index(case['module'])
        r2 = work(('twice', j % 16, 'quick'))
        return [dict(v, sig=None) for v in r2['violations'] if v['case'].get('module') == case['module']][:1]
    events = [_dec_hist([e])[0][1] for e in case['events']]
    if case['kind'] == 'steady-ws':
        r2 = Result()
        _steady_ws(r2, events[0][0], events[0][1], case['warmup'], True)
        return [dict(v, sig=None) for v in r2['violations'][:1]]
    if case['kind'] == 'hashseed':
        r2 = Result()
        _hashseed(r2, events)
        return [dict(v, sig=None) for v in r2['violations'][:1]]
    if case['kind'] == 'firstuse':
        r2 = Result()
        _firstuse(r2, events[0][0], events[0][1], [events[0][2][0], events[1][2][0]], True)
        return [dict(v, sig=None) for v in r2['violations'][:1]]
    if case['kind'] == 'steady':
        r2 = Result()
        _steady(r2, events[0][0], events, True)
        return [dict(v, sig=None) for v in r2['violations'][:1]]
    # schedules: replay the recorded choice list twice and require the same observation
    exp = [pristine(e) for e in events]
    watched = watched_codes() if not case.get('module_code') else set()
    outs = []
    for _ in range(2):
        e4.purge()
        for e in events:
            e4.call(e)
        e4.purge()
        s = e4.Scheduler(watched, case['schedule'], watch_module_code=bool(case.get('module_code')))
        try:
            r = s.run([lambda e=e: e4.call(e)[0] for e in events])
        except RuntimeError:
            break
        after = [e4.call(e)[0] for e in events]
        outs.append((repr(sorted(r.items())), [i for i in range(len(events)) if r.get(i) != exp[i] or after[i] != exp[i]]))
    if len(outs) == 2 and outs[0][0] == outs[1][0] and outs[0][1]:
        res.viol(ID, 'schedule', events[0][0], events[0][1], case, 'reproduced twice', '')
        return [dict(res['violations'][0], sig=None)]
    # the recorded choice list depends on which thread was blocked on the import lock at each point (a timing matter):
    # when it does not replay literally, re-explore this pair of calls within the same bound and report what is found
    r2 = Result()
    explore_pair(r2, tuple(events[:2]), 1 if case.get('module_code') else 2, bool(case.get('module_code')), case['kind'],
                 600, nthreads=len(events))
    return [dict(v, sig=None) for v in r2['violations'][:1]]


def _resig(v, case):
    return None
