"""C15 — accepted numbers are spelled in ASCII (DESIGN.md §2 C15)."""
import re
import sys
import unicodedata
import functools

from .. import core, e1, alphabet
from ..alphabet import class_of
from ..core import Result, outcome

ID = 'C15'
TECHNIQUE = 'exhaustive substitution/insertion of one representative of every behavioural class of non-ASCII numeric and letter characters at every position of valid numbers, on the implementation'
RULE = ('states = (module, seed spelling, position, character): every position of each seed (written and '
        'canonical spelling) x substitution and insertion of one representative of every behavioural class '
        '(quick; thorough: every code point) of Nd/No/Nl characters outside the clean-up table and of the '
        'non-ASCII letter classes, plus the E1 states; invariant: an accepted result is ASCII. '
        'non-trivial = state accepted by validate() (the invariant is evaluated on it).')
ASSUMPTIONS = ['exempt by the statement: de.handelsregisternummer, mx.rfc, es.referenciacatastral and the eight generic algorithm modules',
               'two characters of the same behavioural class (same decimal/digit value class, category, int()/int(,36) '
               'acceptance, str predicates, regex \\d/\\w, ASCII-ness of upper/lower/NFKC) are treated alike by any '
               'string predicate the code can apply (quick tier only; thorough enumerates all)']
# the three formats the statement exempts are exempt only for the national letters of their own alphabet
NATIONAL_LETTERS = {'stdnum.de.handelsregisternummer': 'ÄÖÜäöüß', 'stdnum.mx.rfc': 'Ññ', 'stdnum.es.referenciacatastral': 'Ññ'}
EXEMPT = core.GENERIC

_d = re.compile(r'\d')
_w = re.compile(r'\w')


def _try(f, *a):
    try:
        f(*a)
        return True
    except Exception:
        return False


def _behaviour(c):
    return (unicodedata.decimal(c, None), unicodedata.digit(c, None), unicodedata.category(c),
            _try(int, c), _try(int, c, 36), c.isdigit(), c.isdecimal(), c.isnumeric(), c.isalnum(),
            bool(_d.match(c)), bool(_w.match(c)), c.upper().isascii(), c.lower().isascii(),
            unicodedata.normalize('NFKC', c).isascii(), len(c.upper()), len(c.lower()))


@functools.lru_cache(maxsize=None)
def numeric_classes():
    """{behaviour: [code points]} over all Nd/No/Nl outside the clean-up table."""
    from stdnum.util import clean
    out = {}
    for cp in range(128, sys.maxunicode + 1):
        c = chr(cp)
        if unicodedata.category(c) in ('Nd', 'No', 'Nl'):
            try:
                if clean(c, '') != c:
                    continue
            except Exception:
                pass
            out.setdefault(_behaviour(c), []).append(c)
    return out


@functools.lru_cache(maxsize=None)
def letter_chars(thorough):
    if not thorough:
        return alphabet.QUICK['special-letter'] + alphabet.QUICK['nonascii-letter'] + 'ＺａẞΩ'
    out = []
    for cp in range(128, 0x30000):
        c = chr(cp)
        if unicodedata.category(c).startswith('L'):
            if c.upper().isascii() or c.lower().isascii() or unicodedata.normalize('NFKC', c).isascii() \
                    or unicodedata.normalize('NFKD', c)[0].isascii():
                out.append(c)
    return ''.join(out) + alphabet.QUICK['nonascii-letter']


@functools.lru_cache(maxsize=None)
def value_preserving(thorough):
    """ASCII character -> non-ASCII characters that carry the same value (digits: same decimal/digit/
    numeric value; letters: upper()/lower()/NFKC/NFKD image equals the letter)."""
    out = {}
    classes = numeric_classes()
    for beh, chars in classes.items():
        for c in (chars if thorough else chars[:1]):
            vals = {unicodedata.decimal(c, None), unicodedata.digit(c, None)}
            try:
                n = unicodedata.numeric(c)
                if n == int(n):
                    vals.add(int(n))
            except (TypeError, ValueError):
                pass
            for v in vals:
                if v is not None and 0 <= v <= 9:
                    out.setdefault(str(v), []).append(c)
    for c in letter_chars(True):
        imgs = {c.upper(), c.lower(), unicodedata.normalize('NFKC', c), unicodedata.normalize('NFKD', c)[:1]}
        for im in imgs:
            if len(im) == 1 and im.isascii() and im.isalpha():
                out.setdefault(im.upper(), []).append(c)
                out.setdefault(im.lower(), []).append(c)
    if not thorough:
        for k in list(out):
            if k.isalpha():
                out[k] = sorted(set(out[k]), key=lambda ch: (class_of(ch), ord(ch)))[:6]
    return {k: sorted(set(v)) for k, v in out.items()}


def _translates(m, values):
    """True when the format accepts an Arabic-Indic spelling of one of its numbers (it translates foreign digits)."""
    for v in values[:3]:
        x = ''.join(chr(0x660 + int(c)) if c.isdigit() else c for c in v)
        if x != v:
            o = outcome(m.validate, x)
            if o[0] == 'ok':
                return True
    return False


def plan(ctx):
    return [(name, ctx['tier']) for name in core.modules() if name not in EXEMPT]


def _field(i, n):
    if i < 4:
        return 'p%d' % i
    if n - i <= 3:
        return 'e%d' % (n - i)
    return 'mid'


def _check(res, name, m, x, dev, same_as=None, opts=None):
    if opts:
        o = outcome(m.validate, x, **opts)
        if o[0] == 'ok' and isinstance(o[1], str):
            if not o[1].isascii() and not all(c.isascii() or c in NATIONAL_LETTERS.get(name, '') for c in o[1]):
                res.viol(ID, 'non-ascii-result', name, 'validate', {'module': name, 'number': x, 'devclass': dev[1],
                                                                     'options': {k: core.enc(v_) for k, v_ in opts.items()}},
                         'validate(%r, **%r) returned %r' % (x, opts, o[1]), 'ASCII-only canonical number',
                         excinfo='+'.join(sorted(opts)), devclass=dev[1], rank=[dev[0], len(x), x])
            return 1
        return 0
    o = outcome(m.validate, x)
    if o[0] == 'ok' and isinstance(o[1], str) and same_as is not None and o[1].isascii():
        # a character that carries the same value was translated: the number must be the one that the ASCII
        # spelling denotes (a digit is produced only from a character with that decimal value)
        ref = outcome(m.validate, same_as)
        if ref[0] == 'ok' and ref[1] != o[1]:
            res.viol(ID, 'translated-to-another-value', name, 'validate', {'module': name, 'number': x, 'devclass': dev[1], 'ascii': same_as},
                     'validate(%r) returned %r but the ASCII spelling %r gives %r' % (x, o[1], same_as, ref[1]),
                     'same canonical number', devclass=dev[1], rank=[dev[0], len(x), x])
    if o[0] == 'ok' and isinstance(o[1], str):
        if not o[1].isascii() and not all(c.isascii() or c in NATIONAL_LETTERS.get(name, '') for c in o[1]):
            res.viol(ID, 'non-ascii-result', name, 'validate', {'module': name, 'number': x, 'devclass': dev[1]},
                     'validate(%r) returned %r' % (x, o[1]), 'ASCII-only canonical number',
                     devclass=dev[1], rank=[dev[0], len(x), x])
        return 1
    return 0


def work(item):
    name, tier = item
    m = core.modules()[name]
    res = Result()
    quick = tier != 'thorough'
    classes = numeric_classes()
    if quick:
        nums = [v[0] for v in classes.values()]
    else:
        nums = [c for v in classes.values() for c in v]
    letters = letter_chars(not quick)
    from .. import seeds as seedmod
    sv = seedmod.seeds(name, 2 if quick else 12)
    n = acc = tr = 0
    translated = 0
    seen = set()
    for s, v in sv:
        for base in dict.fromkeys((v, s)):
            ln = len(base)
            for i in range(ln + 1):
                isl = i < ln and base[i].isalpha()
                chars = nums + (list(letters) if (isl or quick) else list(alphabet.QUICK['special-letter']))
                for c in chars:
                    cl = class_of(c)
                    cands = [(base[:i] + c + base[i:], 'ins:%s@%s' % (cl, _field(i, ln)))]
                    if i < ln:
                        cands.append((base[:i] + c + base[i + 1:], 'sub:%s@%s' % (cl, _field(i, ln))))
                    for x, dc in cands:
                        tr += 1
                        if x in seen:
                            continue
                        seen.add(x)
                        n += 1
                        a = _check(res, name, m, x, (1, dc, base))
                        acc += a
    # every non-default option of validate() (singly and combined): substitutions at every position of the documented numbers
    from ..tables.options import option_sets, option_combos
    osv = {}
    for s, v in seedmod.seeds(name, 12):
        osv.setdefault(len(v), (s, v))         # one documented number per length (with / without check characters ...)
    for opts in option_sets(name, m.validate)[0][1:] + option_combos(name, m.validate):
        for s, v in list(osv.values())[:4]:
            for base in dict.fromkeys((v, s)):
                ln = len(base)
                for i in range(ln):
                    for c in nums + list(letters if quick else alphabet.QUICK['special-letter']):
                        x = base[:i] + c + base[i + 1:]
                        n += 1
                        tr += 1
                        acc += _check(res, name, m, x, (2, 'option+sub:%s@%s' % (class_of(c), _field(i, ln)), base), opts=opts)
    # value-preserving substitutions on the E2 valid set (only a character with the same value can pass a
    # checksum, and corpus seeds may not have the right character at the right place)
    from .. import e2
    vp = value_preserving(not quick)
    values, st = e2.valid_set(name, m, 'quick', nseeds=8 if quick else 16, cap=60 if quick else 300)
    tr += st['tried']
    for v in values:
        ln = len(v)
        for i, ch in enumerate(v):
            for c in vp.get(ch, ()):
                x = v[:i] + c + v[i + 1:]
                tr += 1
                if x in seen:
                    continue
                seen.add(x)
                n += 1
                acc += _check(res, name, m, x, (1, 'sub:%s@%s' % (class_of(c), _field(i, ln)), v),
                              same_as=v if unicodedata.decimal(c, None) is not None and str(unicodedata.decimal(c)) == ch else None)
    res['extra']['e2_valid_numbers'] = len(values)
    # a format that translates foreign digits at all gets every code point with a decimal value (not only one per
    # behaviour class) at every digit position of two valid numbers
    if quick and any(v_['clause'] == 'translated-to-another-value' for v_ in res['violations']) or (quick and acc and _translates(m, values)):
        full = value_preserving(True)
        for v in values[:2]:
            ln = len(v)
            for i, ch in enumerate(v):
                for c in full.get(ch, ()):
                    x = v[:i] + c + v[i + 1:]
                    if x in seen:
                        continue
                    seen.add(x)
                    n += 1
                    acc += _check(res, name, m, x, (1, 'sub:%s@%s' % (class_of(c), _field(i, ln)), v),
                                  same_as=v if unicodedata.decimal(c, None) is not None and str(unicodedata.decimal(c)) == ch else None)
        res['extra'].setdefault('translating_formats', []).append(name)
    # ride on the E1 states too (other classes, short strings)
    states, transitions, _sv = e1.module_states(name, 'quick', nseeds=2)
    for x, dev in states.items():
        if x in seen:
            continue
        n += 1
        acc += _check(res, name, m, x, dev)
    res['states'] = n
    res['transitions'] = tr + transitions
    res['evaluations'] = n
    res['impl_execs'] = n
    res['nontrivial'] = acc
    res['extra']['numeric_behaviour_classes'] = len(classes)
    res['extra']['numeric_code_points'] = sum(len(v) for v in classes.values())
    res['extra']['accepted_with_nonascii_input'] = {name: acc} if acc else {}
    if sv:
        res['samples'].append({'module': name, 'state': sv[0][1][:1] + nums[0] + sv[0][1][2:]})
    return res


def replay(case):
    m = core.modules()[case['module']]
    res = Result()
    _check(res, case['module'], m, case['number'], (0, case.get('devclass', ''), ''), same_as=case.get('ascii'),
           opts={k: core.dec(v) for k, v in case.get('options', {}).items()} or None)
    return res['violations']
