"""C14 — character clean-up never changes the value of a number (DESIGN.md §2 C14)."""
import sys
import itertools
import unicodedata

from .. import core, seeds as seedmod
from ..core import Result, outcome

ID = 'C14'
TECHNIQUE = 'complete enumeration of the character space (all 1,114,112 code points) and of bounded strings x all deletechars subsets against the Unicode database; every look-alike substitution at every position of valid numbers on the implementation'
RULE = ('states = (a) every code point through clean(); (b) every string of length <=2 over all characters the clean-up changes '
        'plus unmapped/ASCII representatives x all 256 subsets of the eight ASCII targets as deletechars, and length 3 over class '
        'representatives; (c) every module (except the eight generic algorithm modules) x seeds x every position x every '
        'look-alike of the character at that position, plus the k-th look-alike at all positions at once; (d) every module compact() x '
        'every numeric non-ASCII character of Unicode at two digit positions of a documented number: it comes out as the digit d only '
        'with decimal value d. oracles from '
        'unicodedata only. non-trivial = states where clean() changed something.')
ASSUMPTIONS = ['the ASCII grave accent may become the ASCII apostrophe (the statement protects ASCII letters and digits only)',
               'the eight generic algorithm modules perform no clean-up and are outside clause (c)']
NCH = 16


def plan(ctx):
    t = ctx['tier']
    return [('codepoints', i, t) for i in range(NCH)] + [('strings', i, t) for i in range(NCH)] + \
           [('modules', name, t) for name in core.modules() if name not in core.GENERIC]


def _clean(s, d=''):
    from stdnum.util import clean
    return clean(s, d)


def check_char(res, c):
    """Oracle for one character. Returns (image, changed?)."""
    try:
        out = _clean(c, '')
    except Exception as e:  # noqa: B902
        res.viol(ID, 'clean-raises', 'stdnum.util', 'clean', {'kind': 'char', 'cp': ord(c)}, repr(e), 'a string',
                 excinfo=type(e).__name__, devclass=unicodedata.category(c), rank=[0, ord(c), ''])
        return c, False
    if out == c:
        return out, False

    def bad(clause, why):
        res.viol(ID, clause, 'stdnum.util', 'clean', {'kind': 'char', 'cp': ord(c)},
                 'clean(U+%04X %s) = %r: %s' % (ord(c), unicodedata.name(c, '?'), out, why), 'ASCII equivalent only',
                 excinfo='U+%04X' % ord(c), devclass=unicodedata.category(c), rank=[0, ord(c), ''])
    if len(out) != 1 or not out.isascii():
        bad('image-not-one-ascii-char', 'image is not exactly one ASCII character')
        return out, True
    if c.isascii() and c.isalnum():
        bad('ascii-alnum-altered', 'an ASCII letter or digit was altered')
    if out.isdigit():
        if unicodedata.decimal(c, None) != int(out):
            bad('digit-without-decimal-value', 'Unicode does not assign decimal value %s' % out)
    elif out.isalpha():
        bad('letter-produced', 'a letter was produced')
    elif out == ' ':
        if unicodedata.category(c) != 'Zs':
            bad('space-from-non-space-separator', 'category is %s, not Zs' % unicodedata.category(c))
    return out, True


_img = {}


def image_table():
    """{char: image} for every character the clean-up changes (computed once per process)."""
    if not _img:
        tmp = Result()
        for cp in range(sys.maxunicode + 1):
            c = chr(cp)
            try:
                o = _clean(c, '')
            except Exception:
                continue
            if o != c:
                _img[c] = o
    return _img


_numeric = []


def numeric_chars():
    """Every non-ASCII character with a numeric value or a number category (Nd, Nl, No): about 1,900."""
    if not _numeric:
        import unicodedata
        for cp in range(128, 0x110000):
            c = chr(cp)
            if unicodedata.category(c)[0] == 'N' or unicodedata.numeric(c, None) is not None:
                _numeric.append(c)
    return _numeric


def work(item):
    kind, key, tier = item
    res = Result()
    n = nt = 0
    quick = tier != 'thorough'
    if kind == 'codepoints':
        for cp in range(key, sys.maxunicode + 1, NCH):
            n += 1
            out, ch = check_char(res, chr(cp))
            nt += ch
        res['extra']['exhaustive'] = True
        res['extra']['code_points'] = n
        if key == 0:
            res['samples'].append({'code_point': 'U+FF17', 'clean': _clean('７')})
    elif kind == 'strings':
        img = image_table()
        changed = sorted(img)
        targets = sorted(set(img.values()))
        extra = ['1', '7', 'A', 'z', '-', ' ', '.', '٣', 'é', '​', '²', '\n', '\ud800', '\U0001f634', '_', '+', '%', '"', '(', 'X']
        full = changed + extra
        if len(changed) > 260:
            # an unexpectedly large clean-up table (every member is still checked alone and by the code-point sweep):
            # the pair sweep uses one character per distinct image plus an evenly spaced sample, and says so
            per_image = {}
            for c in changed:
                per_image.setdefault(img[c], c)
            step = len(changed) / 200.0
            sample = sorted(set(per_image.values()) | {changed[int(i * step)] for i in range(200)})
            res['extra']['pair_alphabet_capped'] = {'changed': len(changed), 'used': len(sample)}
            pair_alpha = sample + extra
        else:
            pair_alpha = full
        alpha = full
        dsets = []
        t8 = [t for t in " -./:,'*" if t in targets][:8] or targets[:8]
        for r in range(len(t8) + 1):
            for comb in itertools.combinations(t8, r):
                dsets.append(''.join(comb))
        dsets += ['1', 'A', ' -', ' -.', ' -./:', '1 ', targets and ''.join(targets) or '']

        def expect(s, d):
            return ''.join(x for x in (img.get(c, c) for c in s) if x not in d)

        def one(s, d):
            try:
                o = _clean(s, d)
            except Exception as e:  # noqa: B902
                o = ('EXC', repr(e))
            e_ = expect(s, d)
            ok = o == e_ and (not isinstance(o, str) or (all(c not in d for c in o)))
            if ok and isinstance(o, str):
                try:
                    ok = _clean(o, d) == o
                except Exception:
                    ok = False
            if not ok:
                # code points are stored as numbers too: JSON joins a high and a low surrogate into one character
                res.viol(ID, 'string-clean-differs', 'stdnum.util', 'clean', {'kind': 'string', 's': s, 'd': d, 'cps': [ord(c) for c in s]},
                         'clean(%r, %r) = %r, per-character image filtered by deletechars = %r (or not idempotent)' % (s, d, o, e_),
                         'order/count preserved, deleted characters absent, idempotent',
                         excinfo='len%d' % len(s), devclass='d%d' % len(d), rank=[len(s), len(d), s + d])
            return 1 if (isinstance(o, str) and o != s) else 0
        if key == 0:
            # two lone surrogate code points that would form, as a UTF-16 pair, a character the table maps (or any
            # astral digit) are two characters: they stay two and unchanged
            import unicodedata
            astral = [c for c in changed if ord(c) > 0xffff]
            astral += [chr(cp) for cp in range(0x10000, 0x1fbfa) if unicodedata.category(chr(cp)) == 'Nd' and chr(cp) not in img][::7]
            for c in astral:
                v_ = ord(c) - 0x10000
                hi, lo = chr(0xd800 + (v_ >> 10)), chr(0xdc00 + (v_ & 0x3ff))
                for s_ in (hi + lo, '1' + hi + lo + 'A', lo + hi, hi + hi + lo):
                    for d in ('', ' -', '1'):
                        n += 1
                        nt += one(s_, d)
        cnt = 0
        for a in alpha:
            cnt += 1
            if cnt % NCH != key:
                continue
            for d in dsets:
                n += 1
                nt += one(a, d)
            if a not in pair_alpha:
                continue
            for b in pair_alpha:
                for d in (dsets if not quick else dsets[::5] + dsets[-7:]):
                    n += 1
                    nt += one(a + b, d)
        if key == 0:
            reps = [min((c for c in changed if img[c] == t), default=None) for t in targets]
            reps = [r for r in reps if r]
            if len(reps) > 16:
                reps = reps[::max(1, len(reps) // 16)][:16]
            reps = reps + extra
            for t in itertools.product(reps, repeat=3):
                s = ''.join(t)
                for d in ('', ' ', ' -', '-.'):
                    n += 1
                    nt += one(s, d)
            n += 1
            if len(_clean(''.join(alpha), '')) != len(''.join(alpha)):
                res.viol(ID, 'length-changed', 'stdnum.util', 'clean', {'kind': 'string', 's': ''.join(alpha), 'd': ''},
                         'clean() without deletechars changed the length', 'same length', rank=[9, 0, ''])
            res['samples'].append({'string': alpha[0] + alpha[1], 'deletechars': dsets[3], 'clean': _clean(alpha[0] + alpha[1], dsets[3])})
            res['extra']['changed_code_points'] = len(changed)
            res['extra']['ascii_targets'] = targets
            res['extra']['deletechars_sets'] = len(dsets)
    else:
        name = key
        m = core.modules()[name]
        img = image_table()
        inv = {}
        for c, t in img.items():
            inv.setdefault(t, []).append(c)
        for t in inv:
            inv[t].sort()
            if len(inv[t]) > 60:
                inv[t] = inv[t][::max(1, len(inv[t]) // 60)]
        sv = seedmod.seeds(name, 2 if quick else 10)
        # plain ASCII numbers as documented must come through clean() untouched (order and count of characters)
        probes = []
        if name == 'stdnum.mx.rfc' or name == 'stdnum.isbn':
            # ASCII text that looks like markup / escapes must stay as it is
            probes = [p_ + b for p_ in '&%\\$#@' for b in ('#49;', 'amp;', 'lt;', 'nbsp;', '#x41;', 'GT', 'x', '49', 'ndash;', 'u0031', 'x31')]
            probes += ['A&B1', 'P&GT850101AB1', '1&2', '&', '&&', '&;', '%31', '\\x31', '&#49', '&amp;#55;']
        allseeds = [(a, b) for a, b in seedmod.seeds(name) if not (a + b).isalnum()][:200]
        for s0, v0 in seedmod.seeds(name, 30) + allseeds + [(p_, p_) for p_ in probes]:
            for t in (s0, v0):
                if t.isascii() and not any(c in img for c in t):
                    n += 1
                    try:
                        ct = _clean(t, '')
                    except Exception as e:  # noqa: B902
                        ct = ('EXC', repr(e))
                    if ct != t:
                        res.viol(ID, 'ascii-text-altered', 'stdnum.util', 'clean', {'kind': 'ascii', 's': t, 'd': ''},
                                 'clean(%r) = %r' % (t, ct), 'unchanged', excinfo='len%d' % len(t), devclass='seed', rank=[0, len(t), t])
        # further accepted presentations: the written seed with one character removed (short sections, dropped
        # leading zeros or separators) where validate() still accepts it
        more = []
        for s, v in sv[:2]:
            for i in range(len(s)):
                t = s[:i] + s[i + 1:]
                o = outcome(m.validate, t)
                if o[0] == 'ok' and t not in more and len(more) < 8:
                    more.append(t)
        # ... and the written seed with its separators replaced by every other ASCII separator the format accepts (a
        # separator in the middle where it has none): each ASCII separator has its own look-alikes
        more2 = []
        for s, v in sv[:2]:
            seps = [ch for ch in dict.fromkeys(s) if ch in " -./:,'*"]
            for alt in " -./:,'*":
                cands = [s.replace(sp, alt) for sp in seps if sp != alt] or [s[:len(s) // 2] + alt + s[len(s) // 2:]]
                for t in cands[:1]:
                    if t != s and t not in more and t not in more2 and len(more2) < 8 and outcome(m.validate, t) == ('ok', v):
                        more2.append(t)
        more = more + more2
        for s, v in list(sv) + [(t, t) for t in more]:
            for base in dict.fromkeys((s, v)):
                ref = outcome(m.validate, base)
                refv = ref[1] if ref[0] == 'ok' else None
                maxk = 0
                for i, ch in enumerate(base):
                    alts = inv.get(ch, [])
                    maxk = max(maxk, len(alts))
                    for c in alts:
                        x = base[:i] + c + base[i + 1:]
                        n += 1
                        nt += 1
                        o = outcome(m.validate, x)
                        ov = o[1] if o[0] == 'ok' else None
                        if ov != refv:
                            res.viol(ID, 'lookalike-spelling-differs', name, 'validate', {'kind': 'module', 'module': name, 'ascii': base, 'unicode': x},
                                     'validate(%r) -> %r but the ASCII spelling %r -> %r' % (x, ov if ov is not None else o[1:], base, refv),
                                     'same result', excinfo='U+%04X' % ord(c), devclass='single', rank=[1, len(x), x])
                for k in range(maxk):
                    x = ''.join((inv[ch][k] if ch in inv and len(inv[ch]) > k else ch) for ch in base)
                    if x == base:
                        continue
                    n += 1
                    nt += 1
                    o = outcome(m.validate, x)
                    ov = o[1] if o[0] == 'ok' else None
                    if ov != refv:
                        res.viol(ID, 'lookalike-spelling-differs', name, 'validate', {'kind': 'module', 'module': name, 'ascii': base, 'unicode': x},
                                 'validate(%r) -> %r but the ASCII spelling %r -> %r' % (x, ov if ov is not None else o[1:], base, refv),
                                 'same result', excinfo='k=%d' % k, devclass='all-positions', rank=[2, len(x), x])
        # the module's own clean-up (compact()): a non-ASCII character may come out as the ASCII digit d only if Unicode
        # assigns it the decimal value d -- every numeric character of Unicode, at the first and at a middle digit
        if sv and hasattr(m, 'compact'):
            import unicodedata
            base = sv[0][1]
            dpos = [i for i, ch in enumerate(base) if ch in '0123456789']
            for i in dict.fromkeys([dpos[0], dpos[len(dpos) // 2]]) if dpos else ():
                as_digit = {}
                for d_ in '0123456789':
                    o = outcome(m.compact, base[:i] + d_ + base[i + 1:])
                    if o[0] == 'ok' and isinstance(o[1], str):
                        as_digit.setdefault(o[1], d_)
                if len(as_digit) < 10:
                    continue        # compact() does not keep this digit apart (strips it, folds it ...)
                for c in numeric_chars():
                    n += 1
                    o = outcome(m.compact, base[:i] + c + base[i + 1:])
                    if o[0] == 'ok' and o[1] in as_digit:
                        nt += 1
                        d_ = as_digit[o[1]]
                        if unicodedata.decimal(c, None) != int(d_):
                            res.viol(ID, 'compact-makes-digit', name, 'compact', {'kind': 'compact', 'module': name, 'base': base, 'pos': i, 'cp': ord(c)},
                                     'compact(%r) = %r: U+%04X (decimal value %r) came out as the digit %s' % (
                                         base[:i] + c + base[i + 1:], o[1], ord(c), unicodedata.decimal(c, None), d_),
                                     'only characters with decimal value d become d', excinfo=unicodedata.category(c),
                                     devclass='numeric-char', rank=[1, ord(c), ''])
        if sv:
            res['samples'].append({'module': name, 'ascii': sv[0][1]})
    res['states'] = n
    res['transitions'] = n
    res['evaluations'] = n
    res['impl_execs'] = n
    res['nontrivial'] = nt
    return res


def replay(case):
    res = Result()
    if case['kind'] == 'char':
        check_char(res, chr(case['cp']))
    elif case['kind'] == 'ascii':
        from stdnum.util import clean
        t = case['s']
        try:
            ct = clean(t, '')
        except Exception as e:  # noqa: B902
            ct = ('EXC', repr(e))
        if ct != t:
            res.viol(ID, 'ascii-text-altered', 'stdnum.util', 'clean', case, 'clean(%r) = %r' % (t, ct), 'unchanged',
                     excinfo='len%d' % len(t), devclass='seed')
    elif case['kind'] == 'compact':
        r = work(('modules', case['module'], 'quick'))
        return [dict(v, sig=None) for v in r['violations'] if v['clause'] == 'compact-makes-digit'][:1]
    elif case['kind'] == 'string':
        r = work(('strings', 0, 'quick'))
        from stdnum.util import clean
        img = image_table()
        s, d = case['s'], case['d']
        if 'cps' in case:
            s = ''.join(chr(cp) for cp in case['cps'])
        try:
            o = clean(s, d)
        except Exception as e:  # noqa: B902
            o = ('EXC', repr(e))
        e_ = ''.join(x for x in (img.get(c, c) for c in s) if x not in d)
        if o != e_ or (isinstance(o, str) and clean(o, d) != o):
            res.viol(ID, 'string-clean-differs', 'stdnum.util', 'clean', case, 'reproduced', '', excinfo='len%d' % len(s), devclass='d%d' % len(d))
    else:
        m = core.modules()[case['module']]
        a, b = outcome(m.validate, case['ascii']), outcome(m.validate, case['unicode'])
        if (a[1] if a[0] == 'ok' else None) != (b[1] if b[0] == 'ok' else None):
            r = work(('modules', case['module'], 'quick'))
            return [v for v in r['violations'] if v['case'].get('unicode') == case['unicode']][:1]
    return res['violations']
