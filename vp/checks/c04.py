"""C04 — format() preserves the identity of a valid number (DESIGN.md §2 C04)."""
import inspect

from .. import core, e1, e2
from ..core import Result, outcome, enc, dec, exc_site
from ..tables.options import option_sets, option_combos
from ..tables.c04_normalise import normalise, DOCUMENTED

ID = 'C04'
TECHNIQUE = 'bounded-deviation exploration (E1 accepted states) + accepted-number graph (E2) x format options; format/validate round trip on the implementation'
RULE = ('states = (module, format options, accepted input): every accepted E1 state (<=1 edit of seeds, quick; '
        'thorough: full alphabet) and every E2 valid number of each module with format() x each single non-default '
        'format option; invariants: format(x) does not raise, validate(format(x)) == validate(x) up to the documented '
        'normalisation, format(x) == format(validate(x)). non-trivial = accepted states evaluated.')
ASSUMPTIONS = ['normalisers for ISMN/ISAN/ISIL/MEID/IMEI(add_check_digit)/ISBN(convert) are in vp/tables/c04_normalise.py',
               'with a separator that compact() does not strip only "does not raise" and spelling-independence are required']


def plan(ctx):
    return [(name, ctx['tier']) for name, m in core.modules().items() if hasattr(m, 'format')]


def _fmt(m, x, fo):
    from stdnum.exceptions import ValidationError
    try:
        return ('ok', m.format(x, **fo))
    except ValidationError as e:
        return ('verr', type(e).__name__)
    except Exception as e:  # noqa: B902
        return ('exc', type(e).__name__, exc_site(e))


def _strippable(m, sep, v):
    if sep == '':
        return True
    try:
        k = len(v) // 2
        return m.compact(v[:k] + sep + v[k:]) == m.compact(v)
    except Exception:
        return False


def _eval(res, name, m, x, v, fo, dev):
    """x accepted input, v = validate(x)."""
    case = {'module': name, 'number': x, 'format_options': {k: enc(val) for k, val in fo.items()}, 'devclass': dev[1]}
    rank = [dev[0], len(x), x]
    optn = '+'.join(sorted(fo)) or 'default'
    f = _fmt(m, x, fo)
    if f[0] != 'ok' or not isinstance(f[1], str):
        res.viol(ID, 'format-raises', name, 'format', case, 'format(%r) -> %r' % (x, f[1:]), 'a string',
                 excinfo='%s|%s' % (f[1], optn), devclass=dev[1], rank=rank)
        return
    fx = f[1]
    fv = _fmt(m, v, fo)
    same = fv[0] != 'ok' or fv[1] == fx
    if not same and name in DOCUMENTED:
        # formats with a documented normalisation: the two texts must denote the same normalised number
        vo_ = {k: val for k, val in fo.items() if k in _validate_opts(m)}
        a_, b_ = outcome(m.validate, fx, **vo_), outcome(m.validate, fv[1], **vo_)
        try:
            same = a_[0] == 'ok' and b_[0] == 'ok' and normalise(name, a_[1], fo) == normalise(name, b_[1], fo)
        except Exception:
            same = False
    if not same:
        res.viol(ID, 'format-depends-on-spelling', name, 'format', case,
                 'format(%r) = %r but format(validate(x)) = format(%r) = %r' % (x, fx, v, fv[1]),
                 'format(x) == format(validate(x))', excinfo=optn, devclass=dev[1], rank=rank)
    sep = fo.get('separator')
    if sep is not None and not _strippable(m, sep, v):
        return
    vo = {k: val for k, val in fo.items() if k in _validate_opts(m)}
    o = outcome(m.validate, fx, **vo)
    if o[0] != 'ok':
        res.viol(ID, 'formatted-rejected', name, 'format', case,
                 'format(%r) = %r is rejected by validate (%s)' % (x, fx, o[1]), 'accepted',
                 excinfo='%s|%s' % (o[1], optn), devclass=dev[1], rank=rank)
        return
    try:
        a, b = normalise(name, o[1], fo), normalise(name, v, fo)
    except Exception:
        a, b = o[1], v
    if a != b:
        res.viol(ID, 'identity-changed', name, 'format', case,
                 'validate(format(%r)) = %r but validate(x) = %r' % (x, o[1], v), 'same number',
                 excinfo=optn, devclass=dev[1], rank=rank)


_vo_cache = {}


def _validate_opts(m):
    if m not in _vo_cache:
        try:
            _vo_cache[m] = set(inspect.signature(m.validate).parameters)
        except (TypeError, ValueError):
            _vo_cache[m] = set()
    return _vo_cache[m]


def work(item):
    name, tier = item
    m = core.modules()[name]
    res = Result()
    quick = tier != 'thorough'
    states, transitions, sv = e1.module_states(name, tier, nseeds=3 if quick else None, with_short=False)
    fopts, unknown = option_sets(name, m.format)
    fopts = fopts + option_combos(name, m.format)
    values, st = e2.valid_set(name, m, tier, nseeds=6 if quick else 30, cap=300 if quick else 4000)
    cand = dict(states)
    for v in values:
        cand.setdefault(v, (1, 'e2', ''))
    n = 0
    accepted = []
    for fo in fopts:
        vo = {k: val for k, val in fo.items() if k in _validate_opts(m)}
        for x, dev in cand.items():
            if fo and quick and dev[0] > 0 and dev[1] not in ('e2',) and not dev[1].startswith(('ins:sep', 'ins:lookalike', 'whole')):
                continue
            o = outcome(m.validate, x, **vo)
            if o[0] != 'ok' or not isinstance(o[1], str):
                continue
            if not fo:
                accepted.append((x, o[1], dev))
            n += 1
            _eval(res, name, m, x, o[1], fo, dev)
    res['states'] = len(states) + len(values)
    res['transitions'] = transitions + st['tried']
    res['evaluations'] = n
    res['impl_execs'] = len(states) + st['tried'] + 4 * n
    res['nontrivial'] = n
    res['extra']['format_option_sets'] = {name: len(fopts)}
    if unknown:
        res['extra']['options_not_in_table'] = {name: unknown}
    if accepted:
        res['samples'].append({'module': name, 'input': accepted[0][0], 'formatted': _fmt(m, accepted[0][0], {})[1]})
    return res


def replay(case):
    name = case['module']
    m = core.modules()[name]
    res = Result()
    fo = {k: dec(v) for k, v in case['format_options'].items()}
    o = outcome(m.validate, case['number'], **{k: v for k, v in fo.items() if k in _validate_opts(m)})
    if o[0] != 'ok':
        return []
    _eval(res, name, m, case['number'], o[1], fo,
          (0, case.get('devclass', ''), ''))
    return res['violations']
