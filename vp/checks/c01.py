"""C01 — validate()/is_valid() error contract (DESIGN.md §2 C01).

Stateless exhaustive exploration of the real validate()/is_valid() of every module over the E1
state space (edit distance <=1 quick / <=2 thorough from the seeds, all short strings, non-string
values) x one non-default option x clock menu for modules that consult the clock."""
import collections
import datetime

from .. import core, e1, clock
from ..core import Result, outcome, enc, dec
from ..tables.options import option_sets, option_combos

ID = 'C01'
TECHNIQUE = 'stateless bounded-deviation exhaustive exploration of the implementation (edit BFS)'
RULE = ('states = distinct (module, options, clock, input) tuples: every string within 1 edit '
        '(quick; thorough: full alphabet, and 2 edits from two seeds) of each seed in written and '
        'canonical spelling over the class-complete alphabet, all strings of length <=2 over it and '
        '<=3 over a 12-character sub-alphabet, 17 non-string values; x each single non-default option; '
        'x clock menu for clock readers. non-trivial = state that got past the format gate '
        '(accepted, or rejected with InvalidChecksum/InvalidComponent).')
ASSUMPTIONS = ['inputs more than 1 (quick) / 2 (thorough) edits from every seed and longer than 3 characters '
               'are not explored', 'the clock is read only through datetime.date.today()/datetime.now() '
               'reachable by the seam (modules consulted are listed in clock_readers)']


SPLIT = {'stdnum.mac': 12, 'stdnum.gs1_128': 12}      # slow validator (registry scan with validate_manufacturer): states spread over work items


def plan(ctx):
    out = []
    for name in core.modules():
        k = SPLIT.get(name, 1)
        out += [(name, ctx['tier'], part, k) for part in range(k)]
    return out


def _verdict(res, name, m, x, opts, vopts_ok, dev, clk, counts):
    """Evaluate the C01 oracle on one state.  Returns outcome tuple."""
    o = outcome(m.validate, x, **opts)
    counts[o[0] if o[0] != 'verr' else o[1]] += 1
    case = None
    if o[0] == 'exc':
        case = _case(name, x, opts, clk, dev)
        res.viol(ID, 'other-exception', name, 'validate', case, '%s at %s' % (o[1], o[2]),
                 'str or ValidationError', devclass=dev[1], excinfo='%s@%s' % (o[1], o[2]), rank=_rank(dev, x))
    elif o[0] == 'ok' and not isinstance(o[1], str):
        case = _case(name, x, opts, clk, dev)
        res.viol(ID, 'returns-nonstring', name, 'validate', case, 'returned %s' % type(o[1]).__name__,
                 'str', devclass=dev[1], excinfo=type(o[1]).__name__, rank=_rank(dev, x))
    if vopts_ok:
        o2 = outcome(m.is_valid, x, **opts)
        if o2[0] != 'ok':
            case = case or _case(name, x, opts, clk, dev)
            ei = o2[1] if o2[0] == 'verr' else '%s@%s' % (o2[1], o2[2])
            res.viol(ID, 'is_valid-raises', name, 'is_valid', case, ei, 'True/False', devclass=dev[1],
                     excinfo=ei, rank=_rank(dev, x))
        elif type(o2[1]) is not bool:
            case = case or _case(name, x, opts, clk, dev)
            res.viol(ID, 'is_valid-nonbool', name, 'is_valid', case, 'returned %s' % type(o2[1]).__name__,
                     'bool', devclass=dev[1], excinfo=type(o2[1]).__name__, rank=_rank(dev, x))
        elif o2[1] != (o[0] == 'ok'):
            case = case or _case(name, x, opts, clk, dev)
            res.viol(ID, 'is_valid-disagrees', name, 'is_valid', case,
                     'is_valid=%r but validate %s' % (o2[1], o[0] if o[0] != 'ok' else 'returned'),
                     'is_valid == (validate returns)', devclass=dev[1],
                     excinfo=(o[1] if o[0] != 'ok' else 'returned'), rank=_rank(dev, x))
    return o


def e2_positions(t):
    from .. import e2
    return e2.default_check_positions(t)


def _rank(dev, x):
    return [dev[0], len(x) if isinstance(x, str) else 0, x if isinstance(x, str) else repr(x)]


def _case(name, x, opts, clk, dev):
    return {'module': name, 'devclass': dev[1], 'number': enc(x), 'options': {k: enc(v) for k, v in opts.items()},
            'clock': clk.isoformat() if clk else None}


def _clock_menu(m, sv):
    menu = list(clock.MENU)
    g = getattr(m, 'get_birth_date', None)
    for s, v in sv[:3]:
        if g is None:
            break
        try:
            d = g(v)
        except Exception:
            continue
        if not isinstance(d, datetime.date):
            continue
        for dd in (d - datetime.timedelta(days=1), d, d + datetime.timedelta(days=1)):
            menu.append(datetime.date(dd.year, dd.month, dd.day))
        for delta in (-1, 1):
            try:
                c = datetime.date(d.year + 100, d.month, min(d.day, 28)) + datetime.timedelta(days=delta)
                menu.append(c)
            except ValueError:
                pass
    out = []
    for d in menu:
        if d not in out:
            out.append(d)
    return out


def work(item):
    name, tier, part, nparts = item
    m = core.modules()[name]
    clock.install()
    clock.set_today(None)
    clock.reset_calls()
    res = Result()
    states, transitions, sv = e1.module_states(name, tier)
    # valid neighbours with a repaired check character (E2): same-class substitutions that stay valid reach branches
    # the single edits of the examples cannot (other months, centuries, number types)
    from .. import e2
    try:
        vals, st = e2.valid_set(name, m, tier, nseeds=4 if tier != 'thorough' else 16, cap=150 if tier != 'thorough' else 2000)
        transitions += st['tried']
        for v_ in vals:
            states.setdefault(v_, (1, 'e2', ''))
    except Exception:
        pass
    if nparts > 1:
        # this item takes every nparts-th state; the parts that do not depend on the states run in part 0 only
        states = dict(list(states.items())[part::nparts])
        transitions = transitions // nparts
    res['transitions'] = transitions
    counts = collections.Counter()
    optsets, unknown = option_sets(name, m.validate)
    optsets = optsets + option_combos(name, m.validate)
    iv_opts = set()
    for o in option_sets(name, m.validate, m.is_valid)[0]:
        iv_opts |= set(o)
    nonstr = core.nonstr_values()
    nontrivial = 0
    n = 0
    for opts in optsets:
        ok_for_isvalid = all(k in iv_opts for k in opts)
        # with a non-default option only the <=0-deviation states and a thinner neighbourhood are needed
        # to stay inside the deviation bound (option = 1 deviation): quick uses deviation-0 states and
        # short strings; the default option set uses everything.
        for x, dev in states.items():
            if opts and tier != 'thorough' and dev[0] > 0 and not dev[1].startswith('short'):
                if not (dev[1].startswith('ins:strip-control') or dev[1].startswith('sub:foreign')
                        or dev[1].startswith('del') or dev[1].startswith('ins:sep')):
                    continue
            o = _verdict(res, name, m, x, opts, ok_for_isvalid, dev, None, counts)
            n += 1
            if o[0] == 'ok' or (o[0] == 'verr' and o[1] in ('InvalidChecksum', 'InvalidComponent')):
                nontrivial += 1
        for key, val in (nonstr if part == 0 else ()):
            _verdict(res, name, m, val, opts, ok_for_isvalid, (1, 'nonstr:' + type(val).__name__, ''), None, counts)
            n += 1
        # the seeds as bytes: ASCII bytes, and with a Latin-1 no-break space / an invalid UTF-8 byte inside
        for s_, v_ in (sv[:2] if part == 0 else ()):
            for b in (v_.encode('utf-8', 'replace'), (v_[:2] + '\xa0' + v_[2:]).encode('latin-1', 'replace'), v_.encode('utf-8', 'replace') + b'\x80'):
                _verdict(res, name, m, b, opts, ok_for_isvalid, (1, 'nonstr:bytes-seed', ''), None, counts)
                n += 1
    # cross-class substitution followed by a repair of the check position: reaches the code behind the checksum
    # gate with a character of another class in the payload
    from .. import synth
    from ..alphabet import class_of
    for s_, v_ in (sv[:2] if part == 0 else ()):
        for i, ch in enumerate(v_):
            for c in '09AOZX':
                if class_of(c) == class_of(ch):
                    continue
                t = v_[:i] + c + v_[i + 1:]
                o = outcome(m.validate, t)
                if o[0] == 'verr' and o[1] == 'InvalidChecksum':
                    for ps in synth.table_check_positions(name, m, t) + e2_positions(t):
                        if i in ps or len(ps) != 1:
                            continue
                        p_ = ps[0]
                        for r in '0123456789XK' + ('ABCDEFGHIJKLMNOPQRSTUVWXYZ' if t[p_].isalpha() else ''):
                            if r != t[p_]:
                                u = t[:p_] + r + t[p_ + 1:]
                                _verdict(res, name, m, u, {}, True, (2, 'sub:%s+repair' % class_of(c), v_), None, counts)
                                n += 1
    # inputs on which validate() crashed while E2 searched for valid neighbours (check character repaired: code behind
    # the checksum gate) are states of their own
    if part == 0:
        for (ename, esite), (t, kw_) in sorted(e2.crash_log.get(name, {}).items()):
            _verdict(res, name, m, t, kw_, all(k in iv_opts for k in kw_), (2, 'e2-search', ''), None, counts)
            n += 1
    # clock dimension
    readers = clock.calls()
    if readers:
        menu = _clock_menu(m, sv)
        sub = [(x, dev) for x, dev in states.items() if dev[0] <= (1 if tier == 'thorough' else 0)
               or dev[1].startswith('sub:digit') or dev[1].startswith('swap') or dev[1].startswith('synth:date')]
        for d in menu[1:]:
            clock.set_today(d)
            for x, dev in sub:
                o = _verdict(res, name, m, x, {}, True, (dev[0] + 1, 'clock+' + dev[1], dev[2]), d, counts)
                n += 1
                if o[0] == 'ok':
                    nontrivial += 1
            # clock answer x single non-default option, on the seeds and their date-carrying variants
            for opts in optsets[1:]:
                okiv = all(k in iv_opts for k in opts)
                for x, dev in sub:
                    if dev[0] == 0 or dev[1].startswith('synth:date'):
                        _verdict(res, name, m, x, opts, okiv, (dev[0] + 2, 'clock+option+' + dev[1], dev[2]), d, counts)
                        n += 1
        clock.set_today(None)
        res['extra']['clock_readers'] = {name: sorted(readers)}
        res['extra']['clock_answers'] = {name: len(menu)}
    res['states'] = n
    res['evaluations'] = n
    res['impl_execs'] = n
    res['nontrivial'] = nontrivial
    res['extra']['outcome_classes'] = {name: dict(counts)}
    if unknown:
        res['extra']['options_not_in_table'] = {name: unknown}
    res['extra']['seeds_used'] = len(sv)
    if sv:
        res['samples'].append({'module': name, 'seed': sv[0][0], 'example_state': core.short(next(
            (x for x, d in states.items() if d[0] == 1), ''), 60)})
    return res


def replay(case):
    name = case['module']
    m = core.modules()[name]
    res = Result()
    clock.install()
    clk = datetime.date.fromisoformat(case['clock']) if case.get('clock') else None
    clock.set_today(clk)
    x = dec(case['number'])
    opts = {k: dec(v) for k, v in case['options'].items()}
    iv = set()
    for o in option_sets(name, m.validate, m.is_valid)[0]:
        iv |= set(o)
    counts = collections.Counter()
    # the deviation class is not recomputed on replay: signature is compared without it
    _verdict(res, name, m, x, opts, all(k in iv for k in opts), (0, case.get('devclass', ''), ''), clk, counts)
    clock.set_today(None)
    return res['violations']
