"""C11 — every shipped registry entry is well-formed and usable by its consumer (DESIGN.md §2 C11).
Finite configuration space (every non-comment line of the 17 registry files), enumerated completely."""
import os
import re
import glob
import datetime
import decimal

from .. import core
from ..core import Result
from ..refs import numdb_ref, gs1_witness

ID = 'C11'
TECHNIQUE = 'complete enumeration of the finite registry contents: strict per-line grammar, per-entry reachability through the real lookup, per-entry consumer witness through the public functions'
RULE = ('configurations = every non-comment line of every .dat file under stdnum/; per line: strict grammar (indent, '
        'ranges with equal-length ordered endpoints, property text fully consumed by key="value" items, consistent '
        'nesting); per entry: lookup of parents\' low + low/high returns the endpoint with the entry\'s properties; '
        'per consumer: a witness number built from the entry is pushed through the public function (IBAN structure, '
        'GS1 AI encode/decode, ISBN five-part split, bank/location/office info(); for nz/banks, be/banks, cz/banks, at/fa, '
        'at/postleitzahl, cn/loc, my/bp also a number under the entry that the consuming is_valid() accepts). non-trivial = entries with a '
        'consumer witness or a reachability lookup.')
ASSUMPTIONS = ['own grammar: indent of spaces, ranges x or x-y, properties key="value" separated by blanks',
               'consumer witness builders are per registry (vp/checks/c11.py CONSUMERS)']

_item = re.compile(r'\s*([0-9a-zA-Z_-]+)="([^"]*)"')
_range = re.compile(r'^[^-,\s"=]+(-[^-,\s"=]+)?$')


def files():
    root = os.path.join(core.REPO, 'stdnum')
    return sorted(glob.glob(os.path.join(root, '*.dat')) + glob.glob(os.path.join(root, '*', '*.dat')))


def plan(ctx):
    items = []
    for f in files():
        rel = os.path.relpath(f, core.REPO)
        n = 16 if rel.endswith('oui.dat') else 1
        for i in range(n):
            items.append((rel, i, n, ctx['tier']))
    return items


def lint(rel, text, res):
    """Strict grammar.  Returns number of lines checked."""
    n = 0
    opens = []      # stack of indents
    heads = []      # (indent, range text) of the open ancestors, for naming an entry by its path
    step = None
    prev = None
    for lineno, line in enumerate(text.splitlines(), 1):
        if line.startswith('#') or not line.strip():
            continue
        n += 1

        def bad(clause, why, line=line, lineno=lineno):
            head = '/'.join([h for _i, h in heads if _i < len(line) - len(line.lstrip(' '))] + [line.strip().split(' ')[0]])
            res.viol(ID, clause, rel, 'line', {'file': rel, 'kind': 'lint', 'entry': head, 'line_text': line[:200]},
                     '%s:%d: %s: %s' % (rel, lineno, why, line.strip()[:120]), 'well-formed line',
                     excinfo=head, rank=[0, lineno, line])
        body = line.lstrip(' ')
        indent = len(line) - len(body)
        if body[:1] in '\t' or '\t' in line[:indent + 1]:
            bad('lint-indent', 'tab in indentation')
        if prev is None:
            if indent != 0:
                bad('lint-indent', 'first entry is indented')
            opens = [indent]
        elif indent > prev:
            if step is None:
                step = indent - prev
            if indent - prev != step:
                bad('lint-indent', 'nesting step %d differs from the file\'s step %d' % (indent - prev, step))
            opens.append(indent)
        else:
            while opens and opens[-1] > indent:
                opens.pop()
            if not opens or opens[-1] != indent:
                bad('lint-indent', 'dedent to a column (%d) that is not an open ancestor' % indent)
                opens.append(indent)
        prev = indent
        head, _, rest = body.partition(' ')
        while heads and heads[-1][0] >= indent:
            heads.pop()
        heads.append((indent, head))
        for r in head.split(','):
            if not _range.match(r):
                bad('lint-range', 'malformed range %r' % r)
                continue
            lo, _, hi = r.partition('-')
            hi = hi or lo
            if len(lo) != len(hi):
                bad('lint-range', 'endpoints of different length in %r' % r)
            elif lo > hi:
                bad('lint-range', 'endpoints out of order in %r' % r)
        pos = 0
        keys = []
        rest = rest.rstrip()
        while pos < len(rest):
            m = _item.match(rest, pos)
            if not m:
                bad('lint-properties', 'property text not understood at column %d: %r' % (pos, rest[pos:pos + 40]))
                break
            keys.append(m.group(1))
            pos = m.end()
        if len(keys) != len(set(keys)):
            bad('lint-properties', 'duplicate property key')
    return n


def _walk(nodes, prefix='', parents=()):
    for node in nodes:
        ranges, props, children = node
        yield prefix, parents, node
        if children:
            for x in _walk(children, prefix + ranges[0][0], parents + (node,)):
                yield x


def reach(rel, name, ref, res, part, nparts):
    from stdnum import numdb
    db = numdb.get(name)
    n = 0
    for idx, (prefix, parents, (ranges, props, children)) in enumerate(_walk(ref)):
        if idx % nparts != part:
            continue
        for lo, hi in ranges:
            for w in dict.fromkeys((lo, hi)):
                n += 1
                r = db.info(prefix + w)
                i = len(parents)
                ok = len(r) > i and r[i][0] == w and all(r[i][1].get(k) == v for k, v in props.items())
                if not ok:
                    rt = lo if lo == hi else lo + '-' + hi
                    res.viol(ID, 'entry-unreachable', rel, 'lookup',
                             {'file': rel, 'kind': 'reach', 'entry': rt, 'query': prefix + w, 'depth': i, 'props': props},
                             'looking up %r does not return entry %s with its properties: %r' % (prefix + w, rt, r[:4]),
                             'part %r with %r' % (w, props), excinfo='%s%s' % (prefix + '/' if prefix else '', rt),
                             rank=[0, len(prefix + w), prefix + w])
    return n


# ----------------------------------------------------------------------------------------------- consumers

def _contains(got, props):
    return isinstance(got, dict) and all(got.get(k) == v for k, v in props.items())


def _iban_witness(cc, props):
    from stdnum import iban
    struct = props.get('bban', '')
    toks = re.findall(r'([0-9]+)!([a-z])', struct)
    if ''.join('%s!%s' % t for t in toks) != struct or any(t[1] not in 'nac' for t in toks):
        return None, 'structure %r uses tokens other than n, a, c' % struct
    bban = ''.join(('0' if t[1] == 'n' else 'A') * int(t[0]) for t in toks)
    w = cc + iban.calc_check_digits(cc + '00' + bban) + bban
    return w, None


def consumers(rel, ref, res, tier):
    """Per-registry witness checks.  Returns number of witnesses executed."""
    n = 0
    name = rel[len('stdnum/'):-4]

    def fail(clause, entry, query, why):
        res.viol(ID, clause, rel, 'consumer', {'file': rel, 'kind': 'consumer', 'entry': entry, 'query': query},
                 why, 'entry works in its consumer', excinfo=entry, rank=[0, len(str(query)), str(query)])

    def call(f, *a, **k):
        try:
            return ('ok', f(*a, **k))
        except Exception as e:  # noqa: B902
            return ('exc', '%s: %s' % (type(e).__name__, str(e)[:80]))

    if name == 'iban':
        from stdnum import iban
        for prefix, parents, (ranges, props, children) in _walk(ref):
            for lo, hi in ranges:
                n += 1
                w, why = _iban_witness(lo, props)
                if w is None:
                    fail('consumer-iban', lo, '', why)
                    continue
                r = call(iban.validate, w, check_country=False)
                if r[0] != 'ok':
                    fail('consumer-iban', lo, w, 'well-formed witness %r is rejected: %s' % (w, r[1]))
                elif not os.path.exists(os.path.join(core.REPO, 'stdnum', lo.lower(), 'iban.py')):
                    # no national IBAN module for this country: the default validation accepts the witness as well
                    n += 1
                    r = call(iban.validate, w)
                    if r[0] != 'ok':
                        fail('consumer-iban', lo, w, 'well-formed witness %r of a country without a national module is rejected by the default validation: %s' % (w, r[1]))
    elif name == 'gs1_ai':
        from stdnum import gs1_128
        text = open(os.path.join(core.REPO, rel), encoding='utf-8').read()
        for ai, fmt, typ, fnc1 in gs1_witness.ai_table(text):
            ws = gs1_witness.witnesses(ai, fmt, typ)
            if not ws:
                n += 1
                # format notation outside the generator: at least the codec must understand it
                r = call(gs1_128._max_length, fmt, typ)
                if r[0] != 'ok':
                    fail('consumer-gs1', ai, fmt, 'format %r of AI %s is not understood by the codec (%s)' % (fmt, ai, r[1]))
                continue
            for raw in (ws[0], ws[-1]) if tier != 'thorough' else ws:
                n += 1
                x = ai + raw
                r = call(gs1_128.info, x)
                if r[0] != 'ok' or list(r[1]) != [ai]:
                    fail('consumer-gs1', ai, x, 'element string %r is not decoded to AI %s: %r' % (x, ai, r[1]))
                    continue
                e = call(gs1_128.encode, r[1])
                r2 = call(gs1_128.info, e[1]) if e[0] == 'ok' else e
                if r2[0] != 'ok' or r2[1] != r[1]:
                    # only the entry's usability is at stake here; value round-trip defects are C16's business
                    if r2[0] != 'ok':
                        fail('consumer-gs1', ai, x, 'decoded value of %r cannot be encoded and decoded again: %r' % (x, r2[1]))
    elif name == 'isbn':
        from stdnum import isbn, ean
        for prefix, parents, (ranges, props, children) in _walk(ref):
            if children or len(parents) < 2:
                continue
            for lo, hi in ranges:
                for w in dict.fromkeys((lo, hi)):
                    n += 1
                    body = (prefix + w)
                    if len(body) > 12:
                        continue
                    body = body + '0' * (12 - len(body))
                    num = body + ean.calc_check_digit(body)
                    r = call(isbn.split, num)
                    gp = parents[1][0][0][0]
                    if r[0] != 'ok' or len(r[1]) != 5 or ''.join(r[1]) != num or r[1][0] != parents[0][0][0][0] \
                            or r[1][2] != (w if len(parents) == 2 else parents[2][0][0][0]) or not all(r[1]) or len(parents) != 2:
                        fail('consumer-isbn', prefix + '/' + (lo if lo == hi else lo + '-' + hi), num,
                             'split(%r) = %r is not the five-part hyphenation %s-%s-%s-...' % (num, r[1], parents[0][0][0][0], gp, w))
    else:
        table = CONSUMERS.get(name)
        if table is None:
            return 0
        for prefix, parents, (ranges, props, children) in _walk(ref):
            merged = {}
            for pr in parents:
                merged.update(pr[1])
            merged.update(props)
            for lo, hi in ranges:
                for w in dict.fromkeys((lo, hi)):
                    q = table['build'](prefix + w, len(parents))
                    if q is None:
                        continue
                    n += 1
                    r = call(table['call'], q)
                    if not table['ok'](r, props, merged, prefix + w):
                        fail('consumer-' + name.replace('/', '-'), (prefix + '/' if prefix else '') + (lo if lo == hi else lo + '-' + hi),
                             q, '%s(%r) = %r does not return the entry %r' % (table['fn'], q, r[1], props))
                    if 'witness' in table:
                        # ... and the entry admits a number that the consuming validator accepts
                        cands = table['witness'](prefix + w, len(parents))
                        if cands:
                            n += 1
                            acc_ = table['accepts'] if 'accepts_props' not in table else (lambda c_: table['accepts_props'](c_, merged))
                            if not any(call(acc_, c) == ('ok', True) for c in cands):
                                fail('validate-' + name.replace('/', '-'), (prefix + '/' if prefix else '') + (lo if lo == hi else lo + '-' + hi),
                                     cands[0], 'none of the %d numbers %r ... under entry %r is accepted by %s' % (
                                         len(cands), cands[0], prefix + w, table['accepts_fn']))
    return n


def _mk():
    """Consumer table built lazily (imports stdnum modules)."""
    from stdnum.at import postleitzahl, tin as at_tin
    from stdnum.be import iban as be_iban
    from stdnum.cz import bankaccount as cz_ba
    from stdnum.nz import bankaccount as nz_ba
    from stdnum.cn import ric
    from stdnum.my import nric
    from stdnum.us import ein
    from stdnum.eu import nace
    from stdnum import imsi, mac, isil, cfi
    from stdnum.id import nik

    def has(r, props, merged, path):
        return r[0] == 'ok' and _contains(r[1], props)

    def hasm(r, props, merged, path):
        return r[0] == 'ok' and _contains(r[1], merged)

    from ..refs import standards

    def be_witness(p, d):
        # Belgian BBAN: bank code + 7 digits + (first ten digits mod 97, 97 for 0); IBAN check digits per ISO 13616
        out = []
        for b in range(3):
            ten = (p + '%07d' % b)[:10]
            bban = ten + '%02d' % (int(ten) % 97 or 97)
            cd = 98 - standards.mod97(bban + 'BE00')
            out.append('BE%02d%s' % (cd, bban))
        return out

    return {
        'at/postleitzahl': dict(fn='at.postleitzahl.info', call=postleitzahl.info, build=lambda p, d: p, ok=has,
                                witness=lambda p, d: [p], accepts=postleitzahl.is_valid, accepts_fn='at.postleitzahl.is_valid'),
        'at/fa': dict(fn='at.tin.info', call=at_tin.info, build=lambda p, d: p + '0000000', ok=has,
                      witness=lambda p, d: ['%s%07d' % (p, b) for b in range(1230, 1330)] if len(p) == 2 else None,
                      # ... also when the caller names the entry's own office
                      accepts=at_tin.is_valid, accepts_fn='at.tin.is_valid(number, office=<office of the entry>)',
                      accepts_props=lambda c, props: at_tin.is_valid(c) and at_tin.is_valid(c, office=props.get('office'))),
        'be/banks': dict(fn='be.iban.info', call=be_iban.info, build=lambda p, d: 'BE00' + p + '000000000', ok=has,
                         witness=be_witness, accepts=be_iban.is_valid, accepts_fn='be.iban.is_valid'),
        'cz/banks': dict(fn='cz.bankaccount.info', call=cz_ba.info, build=lambda p, d: '19-2000145399/' + p, ok=has,
                         witness=lambda p, d: ['19-2000145399/' + p], accepts=cz_ba.is_valid, accepts_fn='cz.bankaccount.is_valid'),
        'nz/banks': dict(fn='nz.bankaccount.info', call=nz_ba.info, build=lambda p, d: (p + '0' * 16)[:16], ok=hasm,
                         # a registered branch admits an account number: the 7 digit base number is searched (check
                         # digit algorithms are modulo <= 11, 400 consecutive bases contain a solution for each)
                         witness=lambda p, d: ['%s%07d000' % (p, b) for b in range(400)] if len(p) == 6 else None,
                         accepts=nz_ba.is_valid, accepts_fn='nz.bankaccount.is_valid'),
        'cn/loc': dict(fn='cn.ric.get_birth_place', call=ric.get_birth_place,
                       build=lambda p, d: (p + '000000')[:6] + '199001010000' if len(p) == 6 else None, ok=hasm,
                       witness=lambda p, d: [p + '19900101001' + c for c in '0123456789X'] if len(p) == 6 else None,
                       accepts=ric.is_valid, accepts_fn='cn.ric.is_valid'),
        'my/bp': dict(fn='my.nric.get_birth_place', call=nric.get_birth_place, build=lambda p, d: '770305' + p + '5678', ok=has,
                      witness=lambda p, d: ['770305' + p + '5678'], accepts=nric.is_valid, accepts_fn='my.nric.is_valid'),
        'us/ein': dict(fn='us.ein.get_campus', call=ein.get_campus, build=lambda p, d: p + '0000000',
                       ok=lambda r, props, merged, path: r[0] == 'ok' and r[1] == props.get('campus')),
        'eu/nace': dict(fn='eu.nace.info', call=nace.info, build=lambda p, d: p, ok=hasm),
        'imsi': dict(fn='imsi.info', call=imsi.info, build=lambda p, d: (p + '0' * 15)[:15] if d == 1 else None, ok=hasm),
        'oui': dict(fn='mac.get_manufacturer', call=mac.get_manufacturer,
                    build=lambda p, d: ':'.join(((p + '0' * 12)[:12])[i:i + 2] for i in range(0, 12, 2)),
                    ok=lambda r, props, merged, path: ('o' not in props) or (r[0] == 'ok' and r[1] == props['o'].replace('%', '"'))),
        'isil': dict(fn='isil.is_valid', call=isil.is_valid, build=lambda p, d: p.rstrip('$') + '-123',
                     ok=lambda r, props, merged, path: r == ('ok', True)),
        'id/loc': dict(fn='id.nik.is_valid', call=nik.is_valid, build=lambda p, d: (p + '0000')[:4] + '011708450001' if len(p) == 4 or d == 0 else None,
                       ok=lambda r, props, merged, path: r[0] == 'ok' and (r[1] is True or len(path) != 4)),
    }


CONSUMERS = None


def work(item):
    global CONSUMERS
    rel, part, nparts, tier = item
    res = Result()
    if CONSUMERS is None:
        CONSUMERS = _mk()
    text = open(os.path.join(core.REPO, rel), encoding='utf-8').read()
    name = rel[len('stdnum/'):-4]
    ref = numdb_ref.parse(text)
    nl = nr = nc = 0
    if part == 0:
        nl = lint(rel, text, res)
    nr = reach(rel, name, ref, res, part, nparts)
    if name == 'oui':
        # consumer witnesses for oui are spread over the parts too
        stride = nparts * (4 if tier != 'thorough' else 1)
        sub = [node for i, node in enumerate(ref) if i % stride == part]
        if tier != 'thorough' and part == 0:
            res['extra']['oui_consumer_witness_stride_quick'] = 4
        nc = consumers(rel, sub, res, tier)
    elif part == 0:
        nc = consumers(rel, ref, res, tier)
    res['states'] = nl + nr + nc
    res['transitions'] = nr + nc
    res['evaluations'] = nl + nr + nc
    res['impl_execs'] = nr + nc
    res['nontrivial'] = nr + nc
    res['extra']['exhaustive'] = True
    res['extra']['lines'] = {rel: nl} if part == 0 else {}
    res['extra']['reachability_lookups'] = nr
    res['extra']['consumer_witnesses'] = {rel: nc} if nc and part == 0 else {}
    if part == 0:
        res['samples'].append({'file': rel, 'lines': nl, 'first_entry': next(iter(_walk(ref)))[2][0][0][0] if ref else None})
    return res


def replay(case):
    global CONSUMERS
    res = Result()
    if CONSUMERS is None:
        CONSUMERS = _mk()
    rel = case['file']
    text = open(os.path.join(core.REPO, rel), encoding='utf-8').read()
    name = rel[len('stdnum/'):-4]
    ref = numdb_ref.parse(text)
    if case['kind'] == 'lint':
        lint(rel, text, res)
    elif case['kind'] == 'reach':
        reach(rel, name, ref, res, 0, 1)
    else:
        consumers(rel, ref, res, 'thorough')
    return [v for v in res['violations'] if v['case'].get('entry') == case.get('entry')]
