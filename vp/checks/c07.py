"""C07 — international identifiers agree with an independent reading of their standard (DESIGN.md §2 C07)."""
import itertools

from .. import core, e1, e2
from ..alphabet import class_of
from ..core import Result, outcome
from ..refs import standards

ID = 'C07'
TECHNIQUE = 'implementation vs reference model over exhaustively enumerated bounded input spaces (complete payload spaces, all short strings over the format alphabet, bounded-deviation neighbourhoods of valid numbers)'
RULE = ('states = (module, input) for the 19 listed modules: (a) complete payload spaces where small (all 10^6 IMO bodies x '
        'all check digits; ISSN/EAN-8/SEDOL/CAS bodies: strided in quick, complete in thorough); (b) every E1 state (<=1 edit '
        'of seeds over the class-complete alphabet, synthesised registry/table inputs) without clean-up-table characters; '
        '(c) all strings of length <=3 (thorough 4) over the format alphabet; (d) the full single-substitution neighbourhood '
        'over the format alphabet of every E2 valid number. oracle: validate() and the reference both reject, or both accept '
        'with the same canonical form. non-trivial = inputs accepted by either side.')
ASSUMPTIONS = ['references: vp/refs/standards.py; ISO 3166/special prefix lists for ISIN and ISRC and the FIGI excluded prefixes are '
               'taken from the pinned tree as registry tables ("given the same registry tables")',
               'characters of the Unicode clean-up table are not in the C07 input space (C14 covers them)']

SPACES = {
    # name: (number of bodies, body -> string, check alphabet, quick stride)
    'stdnum.imo': (10 ** 6, lambda i: '%06d' % i, '0123456789', 1),
    'stdnum.issn': (10 ** 7, lambda i: '%07d' % i, '0123456789X', 23),
    'stdnum.ean': (10 ** 7, lambda i: '%07d' % i, '0123456789', 41),
    'stdnum.gb.sedol': (10 ** 6, lambda i: '%06d' % i, '0123456789', 7),
    'stdnum.casrn': (10 ** 6, lambda i: '%d' % (i + 10), '0123456789', 11),
    'stdnum.isbn': (10 ** 6, lambda i: '030640%03d' % (i % 1000) if i < 1000 else '978030640%03d' % (i % 1000) if i < 2000 else None, '0123456789X', 1),
}
NCH = 8


def plan(ctx):
    items = []
    for name in standards.REFS:
        if name in core.modules():
            items.append(('states', name, ctx['tier']))
            items.append(('short', name, ctx['tier']))
            items.append(('e2', name, ctx['tier']))
    for name in SPACES:
        for i in range(NCH):
            items.append(('space', name, i, ctx['tier']))
    return items


def compare(res, name, m, ref, x, dev, rank0=1, opts=None):
    o = outcome(m.validate, x, **(opts or {}))
    a = o[1] if o[0] == 'ok' else None
    try:
        b = ref(x)
    except Exception as e:  # noqa: B902 - a reference that crashes is a harness error, make it loud
        raise RuntimeError('reference for %s failed on %r: %r' % (name, x, e))
    if a == b:
        return 1 if a is not None else 0
    if a is not None and b is None:
        clause = 'impl-accepts-ref-rejects'
    elif a is None:
        clause = 'ref-accepts-impl-rejects'
    else:
        clause = 'canonical-differs'
    shape = ''.join('d' if c.isdigit() else 'a' if c.isalpha() else 's' if c.isspace() else 'p' for c in x[:30]) if isinstance(x, str) else 'nonstr'
    res.viol(ID, clause, name, 'validate' + ('(%s)' % ','.join(sorted(opts)) if opts else ''),
             {'module': name, 'number': x, 'devclass': dev, 'options': {k: core.enc(v) for k, v in (opts or {}).items()}}, 'validate(%r) -> %r, reference -> %r' % (x, a if a is not None else o[1:], b),
             'agreement', excinfo='len%d:%s' % (len(x), 'rejected' if a is None else 'ascii-result' if a.isascii() else 'nonascii-result'),
             devclass=dev, rank=[rank0, len(x), x])
    return 1


def work(item):
    kind, name = item[0], item[1]
    tier = item[-1]
    quick = tier != 'thorough'
    m = core.modules()[name]
    ref = standards.REFS[name]
    if name == 'stdnum.iban':
        ref = lambda x, f=standards.iban: f(x, repo=core.REPO)   # noqa: E731
    res = Result()
    n = nt = tr = 0
    if kind == 'states':
        states, tr, sv = e1.module_states(name, tier)
        for x, dev in states.items():
            if any(class_of(c) == 'lookalike' for c in x):
                continue
            n += 1
            nt += compare(res, name, m, ref, x, dev[1].split('@')[0] or 'seed', dev[0])
        if sv:
            res['samples'].append({'module': name, 'seed': sv[0][0], 'reference_says': ref(sv[0][0])})
    elif kind == 'short':
        alpha = standards.ALPHABETS[name]
        top = 3 if quick or len(alpha) > 14 else 4
        if len(alpha) > 30 and quick:
            top = 2
        for ln in range(0, top + 1):
            for t in itertools.product(alpha, repeat=ln):
                x = ''.join(t)
                n += 1
                nt += compare(res, name, m, ref, x, 'short', ln)
        # long runs: length gates
        for c in alpha[:3]:
            for ln in (4, 5, 7, 8, 9, 10, 11, 12, 13, 14, 15, 16, 17, 18, 19, 20, 21, 22, 24, 25, 26, 30, 34, 35):
                n += 1
                nt += compare(res, name, m, ref, c * ln, 'run', ln)
    elif kind == 'e2':
        # inputs constructed with the reference's own encoders (correct checksum, valid or not by the other rules)
        for x in standards.constructed_inputs(name):
            n += 1
            nt += compare(res, name, m, ref, x, 'constructed', 1)
        # valid numbers according to the *reference* (E2 run on the reference itself): what the standard accepts must be
        # accepted by the implementation, also in branches for which the implementation's own valid set has no member
        class _RefModule(object):
            __name__ = name + '#reference'

            @staticmethod
            def validate(x):
                v = ref(x)
                if v is None:
                    raise ValueError('rejected by the reference')
                return v

            @staticmethod
            def is_valid(x):
                return ref(x) is not None
        import types
        try:
            from .. import seeds as seedmod
            svr = [(s_, v_) for s_, v_ in seedmod.seeds(name, 6) if ref(v_) == v_]
            nodes = {}
            for s_, v_ in svr:
                nodes[v_] = 0
            alpha_r = ''.join(c for c in standards.ALPHABETS[name] if not c.isspace() and c not in '-.:')
            for v_ in list(nodes)[:4]:
                for i in range(len(v_)):
                    for c in alpha_r:
                        if c == v_[i]:
                            continue
                        t = v_[:i] + c + v_[i + 1:]
                        if ref(t) == t:
                            nodes[t] = 1
                            continue
                        # repair the last position (and the IBAN / ISO 11649 check digits) with the reference
                        for p_ in (len(t) - 1,):
                            for r in alpha_r:
                                u = t[:p_] + r + t[p_ + 1:]
                                if u != t and ref(u) == u:
                                    nodes[u] = 1
                                    break
                        if len(nodes) > (400 if quick else 4000):
                            break
            for v_ in nodes:
                n += 1
                nt += compare(res, name, m, ref, v_, 'ref-valid', 1)
            res['extra']['reference_valid_numbers'] = {name: len(nodes)}
        except RuntimeError:
            raise
        # every two-letter prefix in front of the body of a seed (country tables of ISIN / ISRC / IBAN / BIC)
        if name in ('stdnum.isin', 'stdnum.isrc', 'stdnum.iban', 'stdnum.bic'):
            from .. import seeds as seedmod
            for s_, v_ in seedmod.seeds(name, 2):
                for a in standards.U:
                    for b in standards.U:
                        if name == 'stdnum.bic':
                            x = v_[:4] + a + b + v_[6:]
                            cands = [x]
                        else:
                            x = a + b + v_[2:]
                            cands = [x]
                            if name == 'stdnum.isin':
                                cands += [x[:-1] + d for d in standards.D if d != x[-1]]
                            if name == 'stdnum.iban':
                                cands = [a + b + '%02d' % (98 - standards.mod97(v_[4:] + a + b + '00')) + v_[4:]]
                        for x in cands:
                            n += 1
                            nt += compare(res, name, m, ref, x, 'prefix-sweep', 1)
        # documented validate() options with the reference adapted to them
        optrefs = []
        if name == 'stdnum.isbn':
            def ref13(x, f=standards.isbn):
                v = f(x)
                if v is None or len(v) == 13:
                    return v
                body = '978' + v[:9]
                return body + standards.gs1_check(body)
            optrefs.append(({'convert': True}, ref13))
        if name == 'stdnum.iban':
            optrefs.append(({'check_country': False}, lambda x, f=standards.iban: f(x, repo=core.REPO, national=False)))
        alpha = standards.ALPHABETS[name]
        vals, st = e2.valid_set(name, m, tier, nseeds=8 if quick else 40, cap=150 if quick else 3000)
        tr = st['tried']
        for v in vals:
            for i in range(len(v)):
                for c in alpha:
                    if c != v[i]:
                        n += 1
                        nt += compare(res, name, m, ref, v[:i] + c + v[i + 1:], 'e2-sub', 1)
            for i in range(len(v) + 1):
                for c in alpha[:12]:
                    n += 1
                    nt += compare(res, name, m, ref, v[:i] + c + v[i:], 'e2-ins', 1)
            for i in range(len(v)):
                n += 1
                nt += compare(res, name, m, ref, v[:i] + v[i + 1:], 'e2-del', 1)
            # length variants: prefixes/suffixes of valid numbers and their concatenation
            for t in (v[:-1], v[1:], v + v[-1:], v + v, v[:len(v) // 2]):
                n += 1
                nt += compare(res, name, m, ref, t, 'e2-length', 1)
            for o_, r_ in optrefs:
                for i in range(len(v)):
                    for c in alpha[:14]:
                        if c != v[i]:
                            n += 1
                            nt += compare(res, name, m, r_, v[:i] + c + v[i + 1:], 'e2-sub', 1, o_)
                n += 1
                nt += compare(res, name, m, r_, v, 'e2-valid', 1, o_)
    else:
        _k, name, part, tier = item
        total, body, checks, stride = SPACES[name]
        step = 1 if not quick else stride
        cnt = 0
        for i in range(part * step, total, NCH * step):
            b = body(i)
            if b is None:
                break
            cnt += 1
            for c in checks:
                n += 1
                nt += compare(res, name, m, ref, b + c, 'payload-space', 0)
        res['extra']['payload_space'] = {name: {'bodies_enumerated': cnt, 'of': total if part == 0 else 0, 'stride': step if part == 0 else 0}}
        if step == 1:
            res['extra']['complete_payload_spaces'] = {name} if part == 0 else set()
    res['states'] = n
    res['transitions'] = n + tr
    res['evaluations'] = n
    res['impl_execs'] = n + tr
    res['nontrivial'] = nt
    res['extra']['inputs_by_kind'] = {kind: n}
    return res


def replay(case):
    name = case['module']
    m = core.modules()[name]
    ref = standards.REFS[name]
    if name == 'stdnum.iban':
        ref = lambda x, f=standards.iban: f(x, repo=core.REPO)   # noqa: E731
    res = Result()
    opts = {k: core.dec(v) for k, v in case.get('options', {}).items()}
    if opts.get('convert') and name == 'stdnum.isbn':
        def ref(x, f=standards.isbn):   # noqa: F811
            v = f(x)
            if v is None or len(v) == 13:
                return v
            body = '978' + v[:9]
            return body + standards.gs1_check(body)
    if 'check_country' in opts and name == 'stdnum.iban':
        ref = lambda x, f=standards.iban: f(x, repo=core.REPO, national=False)   # noqa: E731
    compare(res, name, m, ref, case['number'], case.get('devclass', ''), 1, opts or None)
    return res['violations']
