"""C17 — single typing errors are rejected (DESIGN.md §2 C17)."""
from .. import core, e2, seeds as seedmod
from ..core import Result
from ..tables.c17_modules import MODULES

ID = 'C17'
TECHNIQUE = 'explicit-state search of the accepted-number graph (E2) + exhaustive single-substitution / adjacent-transposition neighbourhood of every reached valid number on the implementation'
RULE = ('states = every same-class single-character substitution in the protected span and every adjacent '
        'transposition (where promised) of every valid number reached by E2 (depth 1 quick: substitutions + '
        'check repair from <=8 seeds; thorough: depth 2 / 40 seeds; complete payload spaces for 7-digit numbers). '
        'invariant: is_valid(mutant) is False. non-trivial = distinct valid number whose full neighbourhood was '
        'enumerated.')
ASSUMPTIONS = ['module table vp/tables/c17_modules.py lists the protected span per format (from the statement and the '
               'module docstrings); do.cedula (whitelist) and fr.siret La Poste numbers are outside the statement']


def plan(ctx):
    mods = core.modules()
    return [(name, ctx['tier']) for name in MODULES if name in mods]


def _neigh(v, span, transp):
    for i in span:
        ch = v[i]
        for c in e2.same_class(ch):
            if c != ch:
                yield v[:i] + c + v[i + 1:], 'sub:' + ('digit' if c in e2.D else 'letter')
    if transp:
        for i in range(len(v) - 1):
            a, b = v[i], v[i + 1]
            if a != b and a in e2.D and b in e2.D:
                yield v[:i] + b + a + v[i + 2:], 'swap:digit'


def _valid_under(m, v, o):
    # valid with this option: validate() does not reject it (the result may be another form: ISBN-10 with convert=True)
    try:
        m.validate(v, **o)
        return True
    except Exception:
        return False


def _check_number(res, name, m, v, spanf, transp, optsets=({},)):
    n = 0
    t = transp(v) if callable(transp) else transp
    # the statement is about a number that is valid: under an option only where v is valid with that option
    optsets = [o for o in optsets if not o or _valid_under(m, v, o)]
    for w, kind in _neigh(v, list(spanf(v)), t):
        for opts in optsets:
            n += 1
            try:
                if opts:
                    m.validate(w, **opts)
                    ok = True
                    try:
                        # is_valid() with the same option, where it takes it, must reject as well
                        ok2 = m.is_valid(w, **opts)
                    except TypeError:
                        ok2 = False
                    except Exception:
                        ok2 = False
                else:
                    ok = m.is_valid(w)
                    ok2 = False
            except Exception:
                ok = False    # rejected (other exceptions are C01's business)
                ok2 = False
                if opts:
                    try:
                        ok2 = m.is_valid(w, **opts) is True
                    except Exception:
                        ok2 = False
            ok = ok or ok2
            if ok:
                res.viol(ID, 'accepted-mutant', name, 'is_valid' if not opts else 'validate',
                         {'module': name, 'valid': v, 'mutant': w, 'options': {k: core.enc(x) for k, x in opts.items()}},
                         'valid %r and single-error mutant %r are both accepted%s' % (v, w, ' with %r' % opts if opts else ''),
                         'mutant rejected', excinfo='+'.join(sorted(opts)),
                         devclass=kind + ':len%d' % len(v), rank=[0, len(v), v + w])
    return n


def _full_space(name, m, tier):
    """Complete payload spaces where small."""
    out = []
    if name == 'stdnum.no.kontonr' and tier == 'thorough':
        for p in range(10 ** 6):
            s = '%06d' % p
            for c in '0123456789':
                if m.is_valid(s + c):
                    out.append(s + c)
    return out


def work(item):
    name, tier = item
    m = core.modules()[name]
    spanf, transp, guard = MODULES[name]
    res = Result()
    values, stats = e2.valid_set(name, m, tier, depth=1 if tier != 'thorough' else 2,
                                 cap=1500 if tier != 'thorough' else 8000)
    values = sorted(set(values) | set(_full_space(name, m, tier)))
    n = 0
    used = 0
    from ..tables.options import option_sets
    optsets = [o for o in option_sets(name, m.validate)[0]
               if not o or list(o)[0] in ('convert', 'strip_check_digits', 'add_check_digits', 'check_country',
                                           'allow_temporary', 'validate_manufacturer', 'table', 'alphabet')]
    for v in values:
        if guard and not guard(v):
            continue
        used += 1
        n += _check_number(res, name, m, v, spanf, transp, optsets if used <= 200 else ({},))
    # the documented presentations (prefixes, separators, other notations) of valid numbers: a substituted letter or digit
    # anywhere in what was written must be rejected as well (only where the check covers the whole number)
    spelled = 0
    for s_, v0 in seedmod.seeds(name, 12 if tier != 'thorough' else None):
        if s_ == v0 or not isinstance(s_, str) or (guard and not guard(v0)):
            continue
        if list(spanf(v0)) != list(range(len(v0))):
            continue
        try:
            if m.validate(s_) != v0:
                continue
        except Exception:
            continue
        spelled += 1
        n += _check_number(res, name, m, s_, lambda x: [i for i, ch in enumerate(x) if ch.isalnum() and ch.isascii()], False, ({},))
    res['extra']['documented_presentations'] = {name: spelled} if spelled else {}
    # options that change which numbers are valid (other alphabet / table): the numbers valid under that option
    for o in optsets:
        if o and list(o)[0] in ('table', 'alphabet'):
            extra = []
            if 'alphabet' in o:
                # the documented numbers transliterated into this alphabet, last character completed
                al = o['alphabet']
                for s_, v in seedmod.seeds(name, 4):
                    t = ''.join(al[int(ch, 36) % len(al)] if ch.isalnum() and ch.isascii() else ch for ch in v)
                    extra += [t[:-1] + c for c in al]
            try:
                vals_o, st_o = e2.valid_set(name, m, tier, kw=o, cap=200 if tier != 'thorough' else 1500, extra_seeds=extra)
            except Exception:
                continue
            for v in vals_o:
                if guard and not guard(v):
                    continue
                n += _check_number(res, name, m, v, spanf, transp, (o,))
            res['extra'].setdefault('valid_numbers_under_option', {})['%s %s' % (name, sorted(o)[0])] = \
                res['extra'].get('valid_numbers_under_option', {}).get('%s %s' % (name, sorted(o)[0]), 0) + len(vals_o)
    res['states'] = n + len(values)
    res['transitions'] = n + stats['edges']
    res['evaluations'] = n + stats['tried']
    res['impl_execs'] = n + stats['tried']
    res['nontrivial'] = used
    res['extra']['valid_numbers'] = {name: used}
    res['extra']['position_char_pairs_covered'] = {name: e2.coverage_matrix(values)}
    if 'cap_hit' in stats:
        res['extra'].setdefault('caps_hit', {})[name] = stats['cap_hit']
    if values:
        v = values[len(values) // 2]
        res['samples'].append({'module': name, 'valid': v, 'mutant': next(_neigh(v, list(spanf(v)), False), (None,))[0]})
    return res


def replay(case):
    name = case['module']
    m = core.modules()[name]
    res = Result()
    v, w = case['valid'], case['mutant']
    opts = {k: core.dec(x) for k, x in case.get('options', {}).items()}
    # the same evaluation as in the search, restricted to the positions where the recorded mutant differs
    diff = [i for i, (a, b) in enumerate(zip(v, w)) if a != b]
    _check_number(res, name, m, v, lambda x: diff, len(diff) == 2, (opts,))
    return [x for x in res['violations'] if x['case']['mutant'] == w][:1]
