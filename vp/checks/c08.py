"""C08 — conversions between formats preserve validity and identity (DESIGN.md §2 C08)."""
from .. import core, e2, synth
from ..core import Result, exc_site
from ..tables import c08_conversions

ID = 'C08'
TECHNIQUE = 'explicit-state search of the accepted-number graph (E2) x presentation variants x conversion options; every conversion relation executed on every reached number'
RULE = ('states = (conversion, valid source number, spelling): every relation of the conversion table x every valid number of '
        'the source reached by E2 (and length variants) x spellings {compact, format(), spaces, hyphens, results of format() with its options}; oracle: the result is '
        'valid in the target format(s), embeds the identity projection of the source, paired conversions undo each other and '
        'the spellings agree. non-trivial = conversions that returned a value.')
ASSUMPTIONS = ['relations and identity projections: vp/tables/c08_conversions.py (closed list from the statement of C08)',
               'a conversion may raise a ValidationError only where its docstring says so (ISBN-13 with prefix 979 has no ISBN-10)']


def plan(ctx):
    mods = core.modules()
    rows = c08_conversions.rows(mods)
    return [(i, ctx['tier']) for i in range(len(rows))]


_ROWS = None


def _rows(mods):
    global _ROWS
    if _ROWS is None:
        _ROWS = c08_conversions.rows(mods)
    return _ROWS


def _call(f, *a):
    from stdnum.exceptions import ValidationError
    try:
        return ('ok', f(*a))
    except ValidationError as e:
        return ('verr', type(e).__name__)
    except Exception as e:  # noqa: B902
        return ('exc', '%s@%s' % (type(e).__name__, exc_site(e)))


def spellings(m, v):
    out = [('compact', v)]
    cands = []
    if hasattr(m, 'format'):
        try:
            cands.append(('format', m.format(v)))
        except Exception:
            pass
    k = len(v) // 2
    cands.append(('space', v[:k] + ' ' + v[k:]))
    cands.append(('spaces', ' '.join(v[i:i + 4] for i in range(0, len(v), 4))))
    cands.append(('hyphen', v[:k] + '-' + v[k:]))
    for name, s in cands:
        try:
            if s != v and m.validate(s) == v:
                out.append((name, s))
        except Exception:
            pass
    return out


def _eval(res, mods, row, idx, v, stats):
    m = mods['stdnum.' + row['src']]
    tgt = mods['stdnum.' + row['tgt']]
    if row.get('guard') and not row['guard'](v):
        return
    results = {}
    sp = spellings(m, v)
    # chained operations: what the module's own format() with options (format='dec', add_check_digit=True ...)
    # returns for v is one more presentation of v wherever validate() maps it back to v (only format(): a
    # conversion such as it.aic.to_base32 is documented for one representation only)
    for r2 in _rows(mods):
        if r2['src'] == row['src'] and r2['tgt'] == row['src'] and r2['name'].startswith('format'):
            o2 = _call(r2['conv'], m, v)
            if o2[0] == 'ok' and isinstance(o2[1], str) and o2[1] != v and all(o2[1] != s_ for n_, s_ in sp):
                if _call(m.validate, o2[1]) == ('ok', v):
                    sp.append(('via:' + r2['name'], o2[1]))
    for sname, s in sp:
        stats['n'] += 1
        o = _call(row['conv'], m, s)
        case = {'row': idx, 'src': row['src'], 'name': row['name'], 'number': s, 'canonical': v}
        rank = [0 if sname == 'compact' else 1, len(s), s]

        def viol(clause, obs, exc=''):
            res.viol(ID, clause, 'stdnum.' + row['src'], row['name'], dict(case, clause=clause), obs, 'see clause',
                     excinfo=exc, devclass='%s:len%d' % (sname, len(v)), rank=rank)
        if o[0] == 'exc':
            viol('conversion-raises', '%s(%r) raised %s' % (row['name'], s, o[1]), o[1])
            continue
        if o[0] == 'verr':
            if not (row.get('may_reject') and row['may_reject'](v)):
                viol('conversion-rejects-valid', '%s(%r) raised %s for a valid %s' % (row['name'], s, o[1], row['src']), o[1])
            continue
        r = o[1]
        if r is None and row.get('none_ok'):
            continue
        stats['ok'] += 1
        if not isinstance(r, str):
            viol('result-not-string', '%s(%r) = %r' % (row['name'], s, r))
            continue
        t = _call(tgt.validate, r)
        if t[0] != 'ok':
            viol('result-invalid', '%s(%r) = %r is not a valid %s (%s)' % (row['name'], s, r, row['tgt'], t[1]), t[1])
            continue
        for extra in row.get('also', ()):
            t2 = _call(mods['stdnum.' + extra].validate, r)
            if t2[0] != 'ok':
                viol('result-invalid', '%s(%r) = %r is not a valid %s (%s)' % (row['name'], s, r, extra, t2[1]), t2[1])
        rc = t[1]
        results[sname] = rc
        try:
            same = row['ident'](v, rc)
        except Exception:
            same = False
        if not same:
            viol('identity-lost', '%s(%r) = %r (canonical %r) does not embed the identity of %r' % (row['name'], s, r, rc, v))
        if row.get('inv'):
            b = _call(row['inv'], mods, r)
            if b[0] == 'ok':
                bc = b[1]
                if isinstance(bc, str):
                    cb = _call(m.validate, bc)
                    bc = cb[1] if cb[0] == 'ok' else bc
                eq = row['inv_eq'](v, bc) if row.get('inv_eq') else (bc == v)
                if not eq:
                    viol('inverse-differs', 'inverse of %s(%r) = %r gives %r, not %r' % (row['name'], s, r, b[1], v))
            elif b[0] == 'exc' or not (row.get('inv_may_reject')):
                viol('inverse-fails', 'inverse of %s(%r) = %r raised %s' % (row['name'], s, r, b[1]), b[1])
    if len(set(results.values())) > 1:
        res.viol(ID, 'spellings-disagree', 'stdnum.' + row['src'], row['name'],
                 {'row': idx, 'src': row['src'], 'name': row['name'], 'number': v, 'canonical': v, 'clause': 'spellings-disagree'},
                 'results differ by spelling: %r' % results, 'equal up to compact', devclass='len%d' % len(v), rank=[1, len(v), v])


def work(item):
    idx, tier = item
    mods = core.modules()
    row = c08_conversions.rows(mods)[idx]
    res = Result()
    quick = tier != 'thorough'
    name = 'stdnum.' + row['src']
    m = mods[name]
    values, st = e2.valid_set(name, m, tier, nseeds=10 if quick else 60, cap=600 if quick else 5000, depth=1 if quick else 2)
    extra = set()
    for v in values[:300 if quick else 5000]:
        for t in (v[:-1], v[1:], v[:-4], v[4:], '0' + v, v + '0'):
            if t and e2._accepts(m, t, {}):
                extra.add(t)
    # complete small payload spaces: 7-digit Norwegian accounts
    if row['src'] == 'no.kontonr':
        for p in range(0, 10 ** 6, 1 if not quick else 37):
            s = '%06d' % p
            for c in '0123456789':
                if e2._accepts(m, s + c, {}):
                    extra.add(s + c)
    values = sorted(set(values) | extra)
    stats = {'n': 0, 'ok': 0}
    for v in values:
        _eval(res, mods, row, idx, v, stats)
    res['states'] = stats['n']
    res['transitions'] = stats['n'] + st['tried']
    res['evaluations'] = stats['n']
    res['impl_execs'] = stats['n'] * 3 + st['tried']
    res['nontrivial'] = stats['ok']
    res['extra']['conversions'] = {'%s.%s' % (row['src'], row['name']): stats['ok']}
    if values:
        res['samples'].append({'conversion': '%s.%s' % (row['src'], row['name']), 'number': values[len(values) // 2]})
    return res


def replay(case):
    mods = core.modules()
    row = c08_conversions.rows(mods)[case['row']]
    if row['src'] != case['src'] or row['name'] != case['name']:
        return []
    res = Result()
    _eval(res, mods, row, case['row'], case['canonical'], {'n': 0, 'ok': 0})
    return [v for v in res['violations'] if v['case']['clause'] == case['clause']]
