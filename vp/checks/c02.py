"""C02 — validate() returns a canonical fixed point (DESIGN.md §2 C02)."""
import collections

from .. import core, e1
from ..core import Result, outcome, enc, dec
from ..tables.options import option_sets, option_combos

ID = 'C02'
TECHNIQUE = 'stateless bounded-deviation exhaustive exploration of the implementation (edit BFS), invariant on every accepted state'
RULE = ('states = E1 states (<=1 edit quick / full alphabet + 2 edits thorough, short strings) x single '
        'non-default validate() option; for every state where validate(x) returns v the invariant '
        'validate(v) == v and v == v.strip() is evaluated. non-trivial = accepted state (the invariant '
        'is evaluated); distinct by (module, options, input).')
ASSUMPTIONS = ['only presentations within the deviation bound of a seed are explored']


SPLIT = {'stdnum.mac': 12, 'stdnum.gs1_128': 12}      # slow validators (4 ms registry scan with validate_manufacturer): states spread over work items


def plan(ctx):
    out = []
    for name in core.modules():
        k = SPLIT.get(name, 1)
        out += [(name, ctx['tier'], part, k) for part in range(k)]
    return out


def _eval(res, name, m, x, opts, dev):
    o = outcome(m.validate, x, **opts)
    if o[0] != 'ok' or not isinstance(o[1], str):
        return None
    v = o[1]
    rank = [dev[0], len(x), x]
    case = {'module': name, 'number': x, 'options': {k: enc(val) for k, val in opts.items()}, 'devclass': dev[1]}
    if v != v.strip():
        res.viol(ID, 'whitespace', name, 'validate', case, 'returned %r' % v, 'no surrounding whitespace',
                 devclass=dev[1], rank=rank)
    o2 = outcome(m.validate, v, **opts)
    if o2[0] != 'ok':
        res.viol(ID, 'refeed-rejected', name, 'validate', case,
                 'validate(%r) returned %r which is then rejected with %s' % (x, v, o2[1]),
                 'validate(v) == v', devclass=dev[1], excinfo=o2[1], rank=rank)
    elif o2[1] != v:
        res.viol(ID, 'refeed-changes', name, 'validate', case,
                 'validate(%r) returned %r, validating that returns %r' % (x, v, o2[1]),
                 'validate(v) == v', devclass=dev[1], rank=rank)
    return v


def work(item):
    name, tier, part, nparts = item
    m = core.modules()[name]
    res = Result()
    states, transitions, sv = e1.module_states(name, tier)
    if nparts > 1:
        states = dict(list(states.items())[part::nparts])
        transitions = transitions // nparts
    res['transitions'] = transitions
    optsets, unknown = option_sets(name, m.validate)
    optsets = optsets + option_combos(name, m.validate)
    n = acc = 0
    values = set()
    for opts in optsets:
        for x, dev in states.items():
            n += 1
            v = _eval(res, name, m, x, opts, dev)
            if v is not None:
                acc += 1
                values.add(v)
    res['states'] = n
    res['evaluations'] = n
    res['impl_execs'] = n + acc
    res['nontrivial'] = acc
    res['extra']['distinct_canonical_values'] = len(values)
    res['extra']['modules_without_accepted_state'] = [name] if not acc and nparts == 1 else []
    if sv:
        res['samples'].append({'module': name, 'input': sv[0][0], 'canonical': sv[0][1]})
    return res


def replay(case):
    m = core.modules()[case['module']]
    res = Result()
    _eval(res, case['module'], m, case['number'], {k: dec(v) for k, v in case['options'].items()},
          (0, case.get('devclass', ''), ''))
    return res['violations']
