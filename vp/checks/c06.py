"""C06 — generic checksum algorithms give their promised guarantees at any length (DESIGN.md §2 C06).

The finite automaton of each algorithm is extracted from the real checksum() by queries, checked against the
implementation (short strings exhaustively, long periodic strings, one witness per product state) and the
guarantees are decided by exhaustive reachability on (products of) the automaton - for all lengths."""
import itertools

from .. import core, e3
from ..core import Result

ID = 'C06'
TECHNIQUE = 'explicit-state reachability on automata extracted from the code (model) + conformance replay of every product state witness and of exhaustive short / periodic long strings against the implementation'
RULE = ('model = automaton learned from checksum() by observation queries (state = checksum value, plus position '
        'class for the right-to-left algorithms); states/transitions = reachable product states of two copies with '
        'one substitution / one adjacent transposition, plus check-digit vectors; every product state has a witness '
        'pair that is executed on the real is_valid(); conformance: all strings up to a length bound and all '
        'constant / alternating strings up to 3x the alphabet size. non-trivial = product states in the error phase.')
ASSUMPTIONS = ['the implementation carries no state besides the observation (checksum value and position class); '
               'supported by the conformance runs listed in coverage.conformance_strings',
               'Luhn alphabets: prefixes of 0-9A-Za-d for every even N; ISO 7064 alphabets as documented']

A36 = '0123456789ABCDEFGHIJKLMNOPQRSTUVWXYZ'
A40 = A36 + 'abcd'
D = '0123456789'


def configs(tier):
    quick = tier != 'thorough'
    out = [('verhoeff', {}), ('damm', {}), ('damm', {'table': 'docstring'}), ('mod_11_2', {}), ('mod_11_10', {}), ('mod_97_10', {'alphabet': D}),
           ('mod_97_10', {'alphabet': A36}), ('mod_37_2', {'alphabet': A36 + '*'}), ('mod_37_2', {'alphabet': D + 'X'}),
           ('mod_37_36', {'alphabet': A36}), ('mod_37_36', {'alphabet': D})]
    ns = (2, 10, 16, 36, 40) if quick else range(2, 41, 2)
    for n in ns:
        alpha = '0123456789abcdef' if n == 16 else A40[:n]
        out.append(('luhn', {'alphabet': alpha}))
    return out


def plan(ctx):
    return [(name, tuple(sorted(cfg.items())), ctx['tier']) for name, cfg in configs(ctx['tier'])]


def _setup(name, cfg):
    """Returns dict(alphabet, obs, step, accept, is_valid, calc, direction, same_kind, transp, unique)."""
    from stdnum import luhn, verhoeff, damm
    from stdnum.iso7064 import mod_11_2, mod_37_2, mod_11_10, mod_37_36, mod_97_10
    lr = lambda w, c: w + c      # noqa: E731
    rl = lambda w, c: c + w      # noqa: E731
    anyk = lambda c, e: True     # noqa: E731
    if name == 'verhoeff':
        return dict(alphabet=D, obs=lambda w: (verhoeff.checksum(w), len(w) % 8), step=rl, accept=lambda s: s != 'INIT' and s[0] == 0,
                    is_valid=verhoeff.is_valid, calc=verhoeff.calc_check_digit, rtl=True, same_kind=anyk, transp='all', unique=True)
    if name == 'damm':
        if cfg.get('table'):
            from ..tables.options import DOMAINS
            tb = DOMAINS[('stdnum.damm', 'table')][1]      # the alternative quasigroup printed in the damm docstring
            return dict(alphabet=D, obs=lambda w: damm.checksum(w, table=tb), step=lr, accept=lambda s: s != 'INIT' and s == 0,
                        is_valid=lambda w: damm.is_valid(w, table=tb), calc=lambda w: damm.calc_check_digit(w, table=tb),
                        rtl=False, same_kind=anyk, transp='all', unique=True)
        return dict(alphabet=D, obs=lambda w: damm.checksum(w), step=lr, accept=lambda s: s != 'INIT' and s == 0,
                    is_valid=damm.is_valid, calc=damm.calc_check_digit, rtl=False, same_kind=anyk, transp='all', unique=True)
    if name == 'luhn':
        al = cfg['alphabet']
        return dict(alphabet=al, obs=lambda w: (luhn.checksum(w, al), len(w) % 2), step=rl,
                    accept=lambda s: s != 'INIT' and s[0] == 0, is_valid=lambda w: luhn.is_valid(w, al),
                    calc=lambda w: luhn.calc_check_digit(w, al), rtl=True, same_kind=anyk, transp='luhn', unique=True)
    if name == 'mod_11_2':
        return dict(alphabet=D + 'X', obs=lambda w: mod_11_2.checksum(w), step=lr, accept=lambda s: s == 1,
                    is_valid=mod_11_2.is_valid, calc=mod_11_2.calc_check_digit, rtl=False, same_kind=anyk, transp='all', unique=True)
    if name == 'mod_37_2':
        al = cfg['alphabet']
        return dict(alphabet=al, obs=lambda w: mod_37_2.checksum(w, al), step=lr, accept=lambda s: s == 1,
                    is_valid=lambda w: mod_37_2.is_valid(w, al), calc=lambda w: mod_37_2.calc_check_digit(w, al),
                    rtl=False, same_kind=anyk, transp='all', unique=True)
    if name == 'mod_11_10':
        return dict(alphabet=D, obs=lambda w: mod_11_10.checksum(w), step=lr, accept=lambda s: s == 1,
                    is_valid=mod_11_10.is_valid, calc=mod_11_10.calc_check_digit, rtl=False, same_kind=anyk, transp=None, unique=True)
    if name == 'mod_37_36':
        al = cfg['alphabet']
        return dict(alphabet=al, obs=lambda w: mod_37_36.checksum(w, al), step=lr, accept=lambda s: s == 1,
                    is_valid=lambda w: mod_37_36.is_valid(w, al), calc=lambda w: mod_37_36.calc_check_digit(w, al),
                    rtl=False, same_kind=anyk, transp=None, unique=True)
    if name == 'mod_97_10':
        al = cfg['alphabet']
        return dict(alphabet=al, obs=lambda w: mod_97_10.checksum(w), step=lr, accept=lambda s: s == 1,
                    is_valid=mod_97_10.is_valid, calc=mod_97_10.calc_check_digits, rtl=False,
                    same_kind=lambda c, e: c.isdigit() == e.isdigit(), transp='digits' if al == D else None, unique=False)
    raise KeyError(name)


def _iv(f, w):
    try:
        return f(w) is True
    except Exception:
        return False


def work(item):
    name, cfgt, tier = item
    cfg = dict(cfgt)
    res = Result()
    S = _setup(name, cfg)
    A = S['alphabet']
    label = name + (':%d' % len(A) if name in ('luhn', 'mod_37_2', 'mod_37_36', 'mod_97_10') else '') + (':table' if cfg.get('table') else '')
    quick = tier != 'thorough'

    def viol(clause, w1, w2, what, extra=''):
        res.viol(ID, clause, 'stdnum.' + ('iso7064.' if name.startswith('mod_') else '') + name, 'is_valid',
                 {'algorithm': name, 'config': cfg, 'clause': clause, 'a': w1, 'b': w2}, what, 'see clause',
                 excinfo=label, devclass=extra, rank=[0, len(w1) + len(w2), w1 + w2])

    model = e3.Model(A, S['obs'], S['step'], S['accept'])
    try:
        model.learn()
    except Exception as e:  # noqa: B902
        viol('model-does-not-close', '', '', 'automaton extraction failed: %r' % (e,))
        res['states'] = 1
        res['transitions'] = 1
        return res
    nstates = len(model.access)
    conf = 0
    # ---- conformance (a): all short strings
    maxlen = (5 if quick else 6) if len(A) <= 11 else (3 if len(A) <= 17 or not quick else 2) if len(A) > 16 else (4 if quick else 5)
    if len(A) > 20:
        maxlen = 3 if not quick else 2
    for ln in range(1, maxlen + 1):
        for tup in itertools.product(A, repeat=ln):
            w = ''.join(tup)
            seq = w if not S['rtl'] else w[::-1]
            st = model.run(seq)
            conf += 1
            if S['accept'](st) != _iv(S['is_valid'], w):
                viol('conformance', w, '', 'model says %s, is_valid(%r) says %s' % (S['accept'](st), w, _iv(S['is_valid'], w)), 'short')
                break
    # ---- conformance (b): access string x all suffixes of length <= 2, against obs
    for q, u in model.access.items():
        for ln in (1, 2):
            for tup in itertools.product(A, repeat=ln) if len(A) <= 11 or ln == 1 else ():
                w = u
                st = q
                for c in tup:
                    w = S['step'](w, c)
                    st = model.delta[st, c]
                conf += 1
                if S['obs'](w) != st:
                    viol('conformance', w, '', 'observation after %r differs from the model' % w, 'access+suffix')
                    break
    # ---- conformance (c): long periodic strings (position-dependent state the observation does not show)
    top = 3 * len(A) + 5
    mids = sorted({A[0], A[-1], A[len(A) // 2], A[1 % len(A)]})
    for c in A:
        for e in [c] + mids:
            w = ''
            st = model.init
            bad = False
            for i in range(top):
                ch = c if i % 2 == 0 else e
                w = S['step'](w, ch)
                st = model.delta[st, ch]
                conf += 1
                if S['obs'](w) != st:
                    viol('conformance', w, '', 'observation of a length-%d periodic string differs from the model' % len(w), 'long')
                    bad = True
                    break
            if bad:
                break
    # ---- conformance (d): very long strings at sparse checkpoints (block-wise implementations, caches with a period)
    limit = 2100 if name != 'mod_97_10' else (2100 if all(c in D for c in A) else 1050)   # int() string limit: 4300 digits
    checkpoints = set(range(1, 130)) | {k + d for k in (256, 500, 512, 999, 1000, 1024, 1500, 2000, 2048) for d in (-2, -1, 0, 1, 2)}
    for pat in ((A[1 % len(A)],), (A[-1], A[0]), (A[len(A) // 2], A[1 % len(A)], A[-1])):
        w = ''
        st = model.init
        for i in range(limit):
            ch = pat[i % len(pat)]
            w = S['step'](w, ch)
            st = model.delta[st, ch]
            if (i + 1) in checkpoints:
                conf += 1
                try:
                    o = S['obs'](w)
                except Exception as e:  # noqa: B902
                    o = ('EXC', type(e).__name__)
                if o != st:
                    viol('conformance', w[:40] + '...(%d)' % len(w), '', 'observation of a length-%d periodic string differs from the model' % len(w), 'very-long')
                    break
                # the verdict of is_valid() and the generator at this length (length caps, block-wise shortcuts in validate())
                conf += 2
                if S['accept'](st) != _iv(S['is_valid'], w):
                    viol('conformance', w[:40] + '...(%d)' % len(w), '', 'model says %s, is_valid() of the length-%d string says %s' % (
                        S['accept'](st), len(w), _iv(S['is_valid'], w)), 'very-long-verdict')
                    break
                try:
                    full = w + S['calc'](w)
                except Exception as e:  # noqa: B902
                    full = None
                    viol('generator-fails', w[:40] + '...(%d)' % len(w), '', 'the generator raises %s for a length-%d payload' % (type(e).__name__, len(w)), 'very-long-generator')
                    break
                if full is not None and not _iv(S['is_valid'], full):
                    viol('generated-rejected', w[:40] + '...(%d)' % len(w), '', 'payload of length %d completed with the generated check character(s) is rejected' % len(w), 'very-long-generator')
                    break
    states = nstates
    transitions = len(model.delta)
    replayed = 0
    nontrivial = 0

    def replay_pair(t, x1, x2):
        ok = True
        for x, qq in ((x1, t[1]), (x2, t[2])):
            if x and S['accept'](qq) != _iv(S['is_valid'], x):
                viol('witness-replay', x, '', 'model verdict %s for %r differs from is_valid' % (S['accept'](qq), x), 'product')
                ok = False
        return ok

    # ---- property 2: single substitution
    wit, tr, bad = e3.product(model, 'sub', S['same_kind'])
    states += len(wit)
    transitions += tr
    nontrivial += sum(1 for t in wit if t[0] == 1)
    for t, (x1, x2) in wit.items():
        replay_pair(t, x1, x2)
        replayed += 2
    for x1, x2, t in bad[:5]:
        viol('substitution-undetected', x1, x2, 'both %r and %r are valid (single substitution)' % (x1, x2), 'sub')
    # ---- property 3: adjacent transposition
    if S['transp']:
        wit, tr, bad = e3.product(model, 'swap', S['same_kind'])
        states += len(wit)
        transitions += tr
        nontrivial += sum(1 for t in wit if t[0] == 1)
        for t, (x1, x2) in wit.items():
            replay_pair(t, x1, x2)
            replayed += 2
        if S['transp'] == 'luhn':
            # Luhn must miss exactly the swap of the first and last alphabet symbol and nothing else
            pairs = set()
            for x1, x2, t in bad:
                diff = [(a, b) for a, b in zip(x1, x2) if a != b]
                if len(diff) == 2:
                    pairs.add(frozenset(diff[0]))
                    if frozenset(diff[0]) != frozenset((A[0], A[-1])):
                        viol('transposition-undetected', x1, x2, 'both %r and %r are valid (adjacent transposition)' % (x1, x2), 'swap')
            if len(A) > 2 and frozenset((A[0], A[-1])) not in pairs:
                viol('luhn-detects-first-last-swap', A[0] + A[-1], A[-1] + A[0],
                     'the documented blind spot (swap of %r and %r) is not present' % (A[0], A[-1]), 'swap')
            res['extra'].setdefault('luhn_undetected_pairs', {})[label] = sorted(''.join(sorted(p)) for p in pairs)
        else:
            for x1, x2, t in bad[:5]:
                viol('transposition-undetected', x1, x2, 'both %r and %r are valid (adjacent transposition)' % (x1, x2), 'swap')
    # ---- property 1: generated check character(s) validate (and are unique)
    if not S['rtl']:
        for q, u in model.access.items():
            try:
                cd = S['calc'](u)
            except Exception as e:  # noqa: B902
                if u == '' and name == 'mod_97_10':
                    continue
                viol('check-digit-raises', u, '', 'calc_check_digit(%r) raised %r' % (u, e), 'calc')
                continue
            replayed += 1
            st = q
            okc = isinstance(cd, str) and all(c in A for c in cd)
            if okc:
                for c in cd:
                    st = model.delta[st, c]
            if not okc or not S['accept'](st) or not _iv(S['is_valid'], u + cd):
                viol('generated-check-invalid', u, str(cd), 'payload %r + generated %r is not valid' % (u, cd), 'calc')
            if S['unique']:
                accs = [c for c in A if S['accept'](model.delta[q, c])]
                if accs != [cd]:
                    viol('check-not-unique', u, ''.join(accs), 'payload %r: accepting check characters %r, generated %r' % (u, accs, cd), 'calc')
            states += 1
            transitions += len(A)
    else:
        vec, tr = e3.vectors(model, A)
        states += len(vec)
        transitions += tr
        for v, payload_rev in vec.items():
            # witness payload as a normal left-to-right string: the steps prepended symbols
            payload = payload_rev
            accs = [c for c, s in zip(A, v) if S['accept'](s)]
            try:
                cd = S['calc'](payload)
            except Exception as e:  # noqa: B902
                viol('check-digit-raises', payload, '', 'calc_check_digit(%r) raised %r' % (payload, e), 'calc')
                continue
            replayed += 1
            if accs != [cd]:
                viol('check-not-unique', payload, ''.join(accs), 'payload %r: accepting check characters %r, generated %r' % (payload, accs, cd), 'calc')
            elif not _iv(S['is_valid'], payload + cd):
                viol('generated-check-invalid', payload, cd, 'payload %r + generated %r is not valid' % (payload, cd), 'calc')
    res['states'] = states
    res['transitions'] = transitions
    res['impl_execs'] = replayed + conf
    res['evaluations'] = replayed + conf + model.queries
    res['nontrivial'] = nontrivial
    res['extra']['model_states'] = {label: nstates}
    res['extra']['conformance_strings'] = conf
    res['extra']['witness_replays'] = replayed
    res['extra']['exhaustive'] = True
    res['samples'].append({'algorithm': label, 'model_states': nstates, 'example_access_strings': list(model.access.values())[1:4]})
    return res


def replay(case):
    """Re-check the two recorded strings on the real code (no model involved)."""
    res = Result()
    name, cfg = case['algorithm'], case['config']
    S = _setup(name, cfg)
    A = S['alphabet']
    label = name + (':%d' % len(A) if name in ('luhn', 'mod_37_2', 'mod_37_36', 'mod_97_10') else '') + (':table' if cfg.get('table') else '')
    a, b, clause = case['a'], case['b'], case['clause']
    bad = False
    if clause in ('substitution-undetected', 'transposition-undetected'):
        bad = _iv(S['is_valid'], a) and _iv(S['is_valid'], b)
    elif clause == 'generated-check-invalid':
        try:
            bad = not _iv(S['is_valid'], a + S['calc'](a))
        except Exception:
            bad = True
    elif clause == 'check-not-unique':
        accs = [c for c in A if _iv(S['is_valid'], a + c)]
        try:
            bad = accs != [S['calc'](a)]
        except Exception:
            bad = True
    elif clause == 'luhn-detects-first-last-swap':
        # find the blind spot directly: some payload where swapping first/last symbol stays valid
        bad = not any(_iv(S['is_valid'], p + a + c) and _iv(S['is_valid'], p + b + c) for p in ('', A[1 % len(A)]) for c in A)
    else:
        # conformance / witness clauses: rebuild the model and compare on the recorded string
        r2 = work((name, tuple(sorted(cfg.items())), 'quick'))
        return [v for v in r2['violations'] if v['case']['clause'] == clause]
    if bad:
        dev = {'substitution-undetected': 'sub', 'transposition-undetected': 'swap', 'luhn-detects-first-last-swap': 'swap'}.get(clause, 'calc')
        res.viol(ID, clause, 'stdnum.' + ('iso7064.' if name.startswith('mod_') else '') + name, 'is_valid', case,
                 'reproduced on the implementation', 'see clause', excinfo=label, devclass=dev)
    return res['violations']
