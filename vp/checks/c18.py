"""C18 — the online check application answers every query safely (DESIGN.md §2 C18)."""
import io
import os
import sys
import json
import html.parser
import urllib.parse
import importlib.machinery
import importlib.util

from .. import core, e4, seeds as seedmod
from ..core import Result, exc_site

ID = 'C18'
TECHNIQUE = 'exhaustive enumeration of requests (mode x query-string classes x every seed of every module x hostile single edits x marker splices) and of request histories / first-request thread schedules, executed on the real WSGI callable'
RULE = ('states = (history, request): request = mode {HTML, AJAX in 3 header spellings} x query string {absent, empty, repeated, '
        'other parameters, every seed of every module percent-encoded, single hostile-character edits of one seed per module, '
        'invalid percent escapes, markup marker spliced at every position of seeds of formats that pass arbitrary characters}; '
        'each request as the first of a fresh application state and after another request; ordered pairs over a focus set; '
        'two first requests under the E4 scheduler. oracle: status 200, parseable JSON listing exactly the accepting formats, '
        'HTML that parses with the submitted text only in escaped form and one result item per accepting format, same response as '
        'in a fresh state. non-trivial = requests with at least one accepting format.')
ASSUMPTIONS = ['the template\'s unclosed <script> elements are parsed as ordinary elements (html.parser would otherwise swallow the page)',
               'the application is driven through its WSGI callable with DOCUMENT_ROOT = <repo>/online_check',
               'expected formats are computed by the harness from every module file under stdnum/ (not from get_number_modules())']

MARKER = '"><x9q a=\'1\'>&amp;<!--'
HOSTILE = '<>"\'&%+;=#_*@!~^|`\\\x00\t\n\r\x7f\xa0\u00e9\u0663\u2028\ud800'
RAW_QUERIES = ['', 'number=', 'number', 'number=1&number=2', 'x=1', 'x=1&number=9789024538270', 'number=%', 'number=%zz', 'number=%ff',
               'number=%C0%AF', 'number=a+b', 'number=%26%3C%3E%22%27', 'number=%00', 'number=' + '9' * 5000, 'number=%E2%80%A8',
               'NUMBER=9789024538270', 'number=9789024538270&', '&&number=9789024538270', 'number=%ED%A0%80', 'number==', 'number=%3Cscript%3E',
               'number=1&' * 12, 'a=1&b=2&c=3&d=4&e=5&f=6&g=7&h=8&i=9&j=10&k=11&number=9789024538270', 'number=9789024538270' + '&' * 12,
               'number=9789024538270;x=1', '&'.join('p%d=%d' % (i, i) for i in range(40)) + '&number=BE31435411161155',
               'number=' + '%20' * 300 + '9789024538270', 'number=9789024538270&number=' + 'x' * 3000]
AJAX_HEADERS = ['XMLHttpRequest', 'xmlhttprequest', 'XMLHTTPREQUEST']

_app = {}


def load_app(fresh=False):
    """Load online_check/stdnum.wsgi from the working tree (its sys.stdout redirection is undone)."""
    if fresh or 'mod' not in _app:
        path = os.path.join(core.REPO, 'online_check', 'stdnum.wsgi')
        so = sys.stdout
        npath = len(sys.path)
        try:
            loader = importlib.machinery.SourceFileLoader('stdnum_wsgi_under_test', path)
            spec = importlib.util.spec_from_loader('stdnum_wsgi_under_test', loader)
            mod = importlib.util.module_from_spec(spec)
            loader.exec_module(mod)
        finally:
            sys.stdout = so
            # the file prepends <dir>/python-stdnum to sys.path; keep the working tree first
            while sys.path and sys.path[0] != core.REPO and len(sys.path) > npath:
                sys.path.pop(0)
        _app['mod'] = mod
    return _app['mod']


def request(qs, ajax=None, app=None):
    """-> dict(status, headers, body, exc)."""
    app = app or load_app()
    env = {'DOCUMENT_ROOT': os.path.join(core.REPO, 'online_check'), 'SCRIPT_NAME': '/stdnum.wsgi', 'REQUEST_METHOD': 'GET',
           'QUERY_STRING': qs, 'wsgi.input': io.BytesIO(b''), 'wsgi.errors': io.StringIO()}
    if ajax:
        env['HTTP_X_REQUESTED_WITH'] = ajax
    out = {'status': None, 'headers': None, 'body': None, 'exc': None}

    def start_response(status, headers, exc_info=None):
        out['status'] = status
        out['headers'] = headers
    try:
        chunks = app.application(env, start_response)
        out['body'] = b''.join(chunks)
    except Exception as e:  # noqa: B902
        out['exc'] = '%s@%s' % (type(e).__name__, exc_site(e))
    return out


_allmods = {}


def all_modules():
    """Every module file under stdnum/ that has validate(), found by walking the files (independent of
    get_number_modules()), name without the stdnum. prefix -> module."""
    if not _allmods:
        import importlib
        root = os.path.join(core.REPO, 'stdnum')
        for dp, dn, fn in os.walk(root):
            for f in sorted(fn):
                if f.endswith('.py') and f != '__init__.py':
                    rel = os.path.relpath(os.path.join(dp, f), root)[:-3].replace(os.sep, '.')
                    try:
                        m = importlib.import_module('stdnum.' + rel)
                    except Exception:
                        continue
                    if hasattr(m, 'validate') and m.__name__ == 'stdnum.' + rel:
                        _allmods[rel] = m
    return _allmods


def expected_modules(number):
    out = []
    for rel, m in all_modules().items():
        try:
            if m.is_valid(number) is True:
                out.append(rel)
        except Exception:
            pass
    return sorted(out)


class Page(html.parser.HTMLParser):
    # the shipped template opens its two <script src=...> elements without closing them; they are parsed as
    # ordinary elements here so that the rest of the page is still inspected
    CDATA_CONTENT_ELEMENTS = ()

    def __init__(self):
        super().__init__(convert_charrefs=True)
        self.tags = set()
        self.value = None
        self.in_results = False
        self.ul_depth = 0
        self.items = 0
        self.text = []
        self.attrs_seen = set()

    def handle_starttag(self, tag, attrs):
        self.tags.add(tag)
        d = dict(attrs)
        for k in d:
            self.attrs_seen.add(k)
        if tag == 'input' and d.get('id') == 'number':
            self.value = d.get('value')
        if tag == 'div' and d.get('id') == 'number_results':
            self.in_results = True
        elif self.in_results and tag == 'ul':
            self.ul_depth += 1
        elif self.in_results and tag == 'li' and self.ul_depth == 1:
            self.items += 1

    def handle_endtag(self, tag):
        if self.in_results and tag == 'ul':
            self.ul_depth -= 1
        if self.in_results and tag == 'div':
            self.in_results = False

    def handle_data(self, data):
        self.text.append(data)


_template_tags = {}


def template_tags():
    if not _template_tags:
        p = Page()
        p.feed(open(os.path.join(core.REPO, 'online_check', 'template.html'), encoding='utf-8').read() % {'value': '', 'results': ''})
        _template_tags['tags'] = p.tags | {'li', 'b', 'p', 'br', 'ul', 'a', 'i'}
        _template_tags['attrs'] = p.attrs_seen | {'href'}
    return _template_tags


def submitted(qs):
    try:
        p = urllib.parse.parse_qs(qs)
    except Exception:
        return None
    return p['number'][0] if 'number' in p else None


def check_response(res, qs, ajax, r, hist, fresh_body=None):
    number = submitted(qs)
    case = {'query': qs, 'ajax': ajax, 'history': hist}
    mode = 'ajax' if (ajax or '').lower() == 'xmlhttprequest' else 'html'
    shape = 'number:' + ('absent' if number is None else 'empty' if number == '' else 'ascii' if number.isascii() else 'non-ascii')

    def viol(clause, obs, exc=''):
        res.viol(ID, clause, 'online_check', 'application', dict(case, clause=clause), obs, '200 + exact list + escaped echo',
                 excinfo=exc or mode, devclass=shape + '|' + (hist or 'first'), rank=[len(hist or ''), len(qs), qs])
    if r['exc']:
        viol('server-error', 'application raised %s for QUERY_STRING %r (%s)' % (r['exc'], qs[:200], mode), r['exc'] + '|' + mode)
        return 0
    if r['status'] != '200 OK':
        viol('status', 'status %r' % r['status'])
        return 0
    exp = expected_modules(number) if number is not None else []
    body = r['body'].decode('utf-8', 'replace')
    if mode == 'ajax':
        try:
            data = json.loads(body)
            got = sorted(d['module'] for d in data)
        except Exception as e:  # noqa: B902
            viol('json-unparseable', 'body is not the documented JSON list: %r' % (e,))
            return 0
        if got != exp:
            viol('json-list-differs', 'listed %r, is_valid() accepts %r for %r' % (got[:12], exp[:12], number))
    else:
        p = Page()
        try:
            p.feed(body)
            p.close()
        except Exception as e:  # noqa: B902
            viol('html-unparseable', repr(e))
            return 0
        if p.value != (number or ''):
            viol('value-attribute-differs', 'value attribute %r, submitted %r' % (p.value, number))
        tt = template_tags()
        if not p.tags <= tt['tags'] or not p.attrs_seen <= tt['attrs']:
            viol('markup-injected', 'unexpected tags/attributes %r %r' % (sorted(p.tags - tt['tags']), sorted(p.attrs_seen - tt['attrs'])))
        if p.items != len(exp):
            viol('html-list-differs', '%d result items, is_valid() accepts %d formats (%r) for %r' % (p.items, len(exp), exp[:8], number))
    if fresh_body is not None and fresh_body != r['body']:
        viol('response-depends-on-history', 'the same request answered differently after %s' % hist)
    return 1 if exp else 0


def enc(number):
    return 'number=' + urllib.parse.quote(number, safe='', errors='surrogatepass')


def plan(ctx):
    t = ctx['tier']
    names = list(core.modules())
    n = 16
    return [('seeds', i, n, t) for i in range(n)] + [('raw', 0, 1, t), ('history', 0, 1, t), ('marker', 0, 1, t), ('race', 0, 1, t)]


def work(item):
    kind, idx, nparts, tier = item
    res = Result()
    quick = tier != 'thorough'
    n = nt = 0
    app = load_app(fresh=True)
    if kind == 'seeds':
        for j, name in enumerate(core.modules()):
            if j % nparts != idx:
                continue
            sv = seedmod.seeds(name, 2 if quick else 12)
            for s, v in sv:
                for x in dict.fromkeys((s, v)):
                    for ajax in (None, 'XMLHttpRequest'):
                        n += 1
                        nt += check_response(res, enc(x), ajax, request(enc(x), ajax, app), '')
            # valid numbers beyond the documented ones (other lengths, branches behind the code's own literals): the
            # application formats and describes what is valid
            try:
                from .. import e2
                more = [v for v in e2.valid_set(name, core.modules()[name], 'quick', nseeds=4, cap=10 if quick else 60)[0]
                        if all(v != b for a, b in sv)]
            except Exception:
                more = []
            # ... and the inputs on which this module's validate() raised something unexpected during that search
            try:
                more += [t for (en_, site_), (t, kw_) in sorted(e2.crash_log.get(name, {}).items()) if not kw_ and isinstance(t, str)]
            except Exception:
                pass
            for x in more:
                try:
                    q = enc(x)
                except Exception:
                    continue
                n += 1
                nt += check_response(res, q, None, request(q, None, app), '')
            # hostile single edits of one seed
            if sv:
                base = sv[0][0]
                for c in HOSTILE:
                    for i in sorted({0, len(base) // 2, len(base)}):
                        x = base[:i] + c + base[i:]
                        try:
                            q = enc(x)
                        except Exception:
                            continue
                        for ajax in (None, 'XMLHttpRequest') if c in '<>"\'&' or not quick else (None,):
                            n += 1
                            nt += check_response(res, q, ajax, request(q, ajax, app), '')
        if idx == 0:
            res['samples'].append({'query': enc('978-90-245-3827-0'), 'mode': 'html'})
    elif kind == 'raw':
        for qs in RAW_QUERIES:
            for ajax in [None] + AJAX_HEADERS + ['other']:
                n += 1
                nt += check_response(res, qs, ajax, request(qs, ajax, app), '')
        res['samples'].append({'query': RAW_QUERIES[8], 'mode': 'ajax'})
    elif kind == 'marker':
        # formats that let markup characters through: splice the marker at every position of their seeds
        for name, m in core.modules().items():
            sv = seedmod.seeds(name, 1)
            if not sv:
                continue
            base = sv[0][0]
            mid = len(base) // 2
            passes = False
            for c in '<>&"':
                for i in (0, mid, len(base)):
                    try:
                        if m.is_valid(base[:i] + c + base[i:]):
                            passes = True
                    except Exception:
                        pass
            if not passes:
                continue
            res['extra'].setdefault('formats_passing_markup', []).append(name)
            for i in range(len(base) + 1):
                for mk in (MARKER, '<b>', '&lt;', '<', '"'):
                    x = base[:i] + mk + base[i:]
                    q = enc(x)
                    for ajax in (None, 'XMLHttpRequest'):
                        n += 1
                        nt += check_response(res, q, ajax, request(q, ajax, app), '')
    elif kind == 'history':
        focus = [enc('978-90-245-3827-0'), enc('BE31435411161155'), enc('00000000128'), enc('(01)38425876095074(17)181119'),
                 enc('XI432525179'), enc('GB432525179'), 'number=', '', enc('<b>'), enc('360426199101010071'), enc('AGRIFRPP882'),
                 enc('79927398713 '), enc('79927398713')]
        fresh = {}
        for q in focus:
            for ajax in (None, 'XMLHttpRequest'):
                e4.purge()
                a = load_app(fresh=True)
                fresh[(q, ajax)] = request(q, ajax, a)['body']
        for q1 in focus:
            for a1 in (None, 'XMLHttpRequest'):
                e4.purge()
                a = load_app(fresh=True)
                request(q1, a1, a)
                for q2 in focus:
                    for a2 in (None, 'XMLHttpRequest'):
                        n += 1
                        r = request(q2, a2, a)
                        nt += check_response(res, q2, a2, r, 'after:%s' % q1[:40], fresh[(q2, a2)])
        res['samples'].append({'history': [focus[4], focus[5]]})
    elif kind == 'race':
        # two first requests racing on the template load, all interleavings at line granularity of application()
        # requests without a number: the module loop is not entered, so all interleavings of the template
        # block are covered within the preemption bound; a request with a number follows sequentially
        q1, q2 = 'x=1', ''
        e4.purge()
        a0 = load_app(fresh=True)
        exp = [request(q1, None, a0)['body'], request(q2, 'XMLHttpRequest', a0)['body']]
        holder = {}

        def reset():
            # a fresh application module (template not loaded yet); the library modules stay imported
            holder['app'] = load_app(fresh=True)

        def mk():
            a = holder['app']
            return [lambda: request(q1, None, a), lambda: request(q2, 'XMLHttpRequest', a)]

        def check(results, taken, sched):
            for i, (q, aj) in enumerate(((q1, None), (q2, 'XMLHttpRequest'))):
                r = results.get(i)
                if not isinstance(r, dict) or r.get('exc') or r.get('body') != exp[i]:
                    res.viol(ID, 'race-on-first-request', 'online_check', 'application',
                             {'query': q, 'ajax': aj, 'history': 'race', 'schedule': taken, 'clause': 'race-on-first-request'},
                             'under schedule %r request %d got %r' % (taken[:30], i, (r or {}).get('exc') if isinstance(r, dict) else r),
                             'same response as alone', excinfo='race', devclass='first-request', rank=[sum(1 for c in taken if c), len(taken), ''])
            r3 = request(enc('978-90-245-3827-0'), None, holder['app'])
            if r3.get('exc') or r3.get('body') != exp3:
                res.viol(ID, 'race-on-first-request', 'online_check', 'application',
                         {'query': enc('978-90-245-3827-0'), 'ajax': None, 'history': 'race', 'schedule': taken, 'clause': 'race-on-first-request'},
                         'after schedule %r a later request is answered differently' % (taken[:30],), 'same response as alone',
                         excinfo='race-after', devclass='first-request', rank=[9, len(taken), ''])
            return 'ok'
        exp3 = request(enc('978-90-245-3827-0'), None, a0)['body']
        reset()
        watched = {holder['app'].application.__code__}
        execs, outcomes, capped = e4.explore_schedules(mk, watched, 2 if quick else 4, reset, check, max_execs=1500 if quick else 20000,
                                                       watch_module_code=False)
        n += execs
        nt += execs
        res['extra']['first_request_race_executions'] = execs
        if capped:
            res['extra']['caps_hit'] = {'race': execs}
        # second harness: two first requests *with* a number; scheduling points at the lines of application() and of
        # util.get_number_modules() (one per module), one preemption: lazily built per-process state in the module loop
        import importlib
        qa, qb = enc('978-90-245-3827-0'), enc('BE31435411161155')
        reset()
        expab = [request(qa, 'XMLHttpRequest', a0)['body'], request(qb, 'XMLHttpRequest', a0)['body']]

        def mk2():
            a = holder['app']
            return [lambda: request(qa, 'XMLHttpRequest', a), lambda: request(qb, 'XMLHttpRequest', a)]

        def check2(results, taken, sched):
            for i, q in enumerate((qa, qb)):
                r = results.get(i)
                if not isinstance(r, dict) or r.get('exc') or r.get('body') != expab[i]:
                    res.viol(ID, 'race-on-first-request', 'online_check', 'application',
                             {'query': q, 'ajax': 'XMLHttpRequest', 'history': 'race', 'schedule': taken, 'clause': 'race-on-first-request'},
                             'two first requests with a number: under schedule %r request %d got %r' % (
                                 taken[:30], i, (r or {}).get('exc') if isinstance(r, dict) and r.get('exc') else 'a different format list'),
                             'same response as alone', excinfo='race-modules', devclass='first-request', rank=[sum(1 for c in taken if c), len(taken), ''])
            return 'ok'
        u = importlib.import_module('stdnum.util')
        watched2 = {holder['app'].application.__code__, u.get_number_modules.__code__}
        for nm, fobj in vars(holder['app']).items():
            if callable(fobj) and hasattr(fobj, '__code__') and getattr(fobj, '__module__', '') == 'stdnum_wsgi_under_test' and nm not in ('format', 'info', 'get_conversions'):
                watched2.add(fobj.__code__)
        execs2, outcomes2, capped2 = e4.explore_schedules(mk2, watched2, 1, reset, check2, max_execs=60 if quick else 3000,
                                                          watch_module_code=False, horizon=60000, earliest_first=True,
                                                          stride=25 if quick else 1)
        res['extra']['module_loop_race_stride'] = 25 if quick else 1
        res['extra']['module_loop_race_anomalies'] = {k: v for k, v in outcomes2.items() if k.startswith('<')}
        n += execs2
        nt += execs2
        res['extra']['module_loop_race_executions'] = execs2
        if capped2:
            res['extra'].setdefault('caps_hit', {})['race-modules'] = execs2
    res['states'] = n
    res['transitions'] = n
    res['evaluations'] = n
    res['impl_execs'] = n
    res['nontrivial'] = nt
    res['extra']['requests_by_kind'] = {kind: n}
    return res


def replay(case):
    res = Result()
    hist = case.get('history') or ''
    e4.purge()
    app = load_app(fresh=True)
    _allmods.clear()
    if hist.startswith('after:'):
        # the recorded predecessor is abbreviated; replay against every focus predecessor is not needed: re-run the item
        r = work(('history', 0, 1, 'quick'))
        return [v for v in r['violations'] if v['case']['query'] == case['query'] and v['case']['clause'] == case['clause']
                and v['case']['history'] == case['history'] and v['case']['ajax'] == case['ajax']][:1]
    if hist == 'race':
        r = work(('race', 0, 1, 'quick'))
        return r['violations'][:1]
    check_response(res, case['query'], case['ajax'], request(case['query'], case['ajax'], app), '')
    return [v for v in res['violations'] if v['case']['clause'] == case['clause']]
