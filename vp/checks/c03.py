"""C03 — validation outcome depends only on compact() (DESIGN.md §2 C03).

State merging as oracle: explored inputs are hashed by (module, compact(x)); all members of a
class must have the same verdict."""
import collections

from .. import core, e1, alphabet
from ..alphabet import class_of
from ..core import Result, outcome

ID = 'C03'
TECHNIQUE = 'exhaustive bounded-deviation exploration with state merging by compact() image; merged states must agree'
RULE = ('states = E1 states of each module with compact() plus every character that compact() removes or '
        'folds for that module (discovered by probing the whole clean-up table and the alphabet) inserted at '
        'every position of seeds, of rejected single-substitution neighbours and of short garbage, runs of 2, 5 and 16 '
        'of each such character at the start, middle and end, plus case '
        'flips; states are merged by compact(x); every class with >=2 members is compared. non-trivial = '
        'class with >=2 distinct members.')
ASSUMPTIONS = ['the seven modules the statement excludes are skipped (isan, meid, us.ssn, us.itin, us.ein, us.atin, us.tin)',
               'inputs for which compact() itself raises are not compared']
EXEMPT = ('stdnum.isan', 'stdnum.meid', 'stdnum.us.ssn', 'stdnum.us.itin', 'stdnum.us.ein', 'stdnum.us.atin',
          'stdnum.us.tin')


def plan(ctx):
    return [(name, ctx['tier']) for name, m in core.modules().items()
            if hasattr(m, 'compact') and name not in EXEMPT]


def _table_chars():
    from stdnum import util
    out = []
    cm = getattr(util, '_char_map', None)
    if isinstance(cm, dict):
        out = sorted(k for k in cm if isinstance(k, str) and len(k) == 1)
    return out


def _diffclass(x, y):
    cx, cy = collections.Counter(x), collections.Counter(y)
    d = (cx - cy) + (cy - cx)
    cl = sorted({class_of(c) for c in d})
    if not cl and x != y:
        cl = ['order']
    return 'diff:' + '+'.join(cl)


def _verdict(m, x, opts=None):
    o = outcome(m.validate, x, **(opts or {}))
    if o[0] == 'ok':
        return ('ok', o[1])
    if o[0] == 'verr':
        return ('rej',)
    return ('exc', o[1])


def _compare(res, name, m, members, opts=None):
    """members: list of (x, dev).  All verdicts must agree."""
    base = None
    for x, dev in members:
        v = _verdict(m, x, opts)
        if v[0] == 'exc':
            v = ('rej',)   # C01's business; here treated as a rejection
        if base is None:
            base = (x, v, dev)
            continue
        if v != base[1]:
            a, b = (base[0], x) if (len(base[0]), base[0]) <= (len(x), x) else (x, base[0])
            clause = 'value-differs' if v[0] == 'ok' and base[1][0] == 'ok' else 'verdict-differs'
            dc = _diffclass(a, b)
            res.viol(ID, clause, name, 'validate', {'module': name, 'x': a, 'y': b, 'options': {k: core.enc(val) for k, val in (opts or {}).items()}},
                     'compact equal but validate(%r) -> %r, validate(%r) -> %r' % (base[0], base[1], x, v),
                     'same verdict', excinfo='+'.join(sorted(opts or {})), devclass=dc, rank=[dev[0], len(a) + len(b), a + b])


def work(item):
    name, tier = item
    m = core.modules()[name]
    res = Result()
    quick = tier != 'thorough'
    states, transitions, sv = e1.module_states(name, tier, nseeds=3 if quick else None)
    # discover decoration characters
    probe = sorted(set(_table_chars()) | set(alphabet.thorough_alphabet()))
    decor = []
    if sv:
        s0 = sv[0][1]
        try:
            c0 = m.compact(s0)
        except Exception:
            c0 = None
        if c0 is not None:
            mid = len(s0) // 2
            for c in probe:
                try:
                    if m.compact(s0[:mid] + c + s0[mid:]) == c0 or m.compact(c + s0) == c0 or m.compact(s0 + c) == c0:
                        decor.append(c)
                except Exception:
                    pass
    # bases: canonical seeds, rejected neighbours, garbage
    bases = []
    for s, v in sv[:2 if quick else 6]:
        for b in (v, s):
            if b not in bases:
                bases.append(b)
        for i in (0, len(v) // 2, len(v) - 1):
            if 0 <= i < len(v):
                ch = '1' if v[i] != '1' else '2'
                nb = v[:i] + ch + v[i + 1:]
                if nb not in bases:
                    bases.append(nb)
    bases += ['', '0', 'A', '12', 'A1']
    dq = decor if not quick else decor[:400]
    for b in bases:
        for c in dq:
            for i in range(len(b) + 1):
                t = b[:i] + c + b[i:]
                transitions += 1
                if t not in states:
                    states[t] = (1, 'decor:' + class_of(c), b)
        # runs of one decoration character (a deviation repeated: zero padding, doubled separators) at the
        # start, the middle and the end; compact() decides whether the run really is decoration
        for c in [c for c in dq if ord(c) < 128] + [c for c in dq if ord(c) >= 128][:10]:
            for i in sorted({0, len(b) // 2, len(b)}):
                for run in (2, 5, 16):
                    t = b[:i] + c * run + b[i:]
                    transitions += 1
                    if t not in states:
                        states[t] = (run, 'decor-run:' + class_of(c), b)
        for t in [b.lower(), b.upper(), b.swapcase(), b.title()] + \
                [b[:i] + b[i].swapcase() + b[i + 1:] for i in range(len(b)) if b[i].isalpha()] + \
                [b[:i] + b[i:].swapcase() for i in range(1, len(b)) if b[i].isalpha()]:
            transitions += 1
            if t not in states:
                states[t] = (1, 'case', b)
    # case variants of further seeds (formats with several families, e.g. Base58 and Bech32 addresses)
    from .. import seeds as seedmod
    for s_, v_ in seedmod.seeds(name, 12):
        for b in (v_, s_):
            for t in (b.lower(), b.upper(), b.swapcase(), b.title(), b[:1].swapcase() + b[1:], b[:3].upper() + b[3:]):
                transitions += 1
                if t not in states:
                    states[t] = (1, 'case', b)
    res['transitions'] = transitions
    groups = collections.defaultdict(list)
    ncomp_err = 0
    for x, dev in states.items():
        try:
            k = m.compact(x)
        except Exception:
            ncomp_err += 1
            continue
        if not isinstance(k, str):
            ncomp_err += 1
            continue
        groups[k].append((x, dev))
    multi = 0
    nacc = 0
    from ..tables.options import option_sets, option_combos
    optsets = option_sets(name, m.validate)[0] + option_combos(name, m.validate)
    for k, members in groups.items():
        if len(members) < 2:
            continue
        multi += 1
        members.sort(key=lambda t: (t[1][0], len(t[0]), t[0]))
        _compare(res, name, m, members)
        # each single non-default validate() option: the statement quantifies over validate() as called
        for opts in optsets[1:]:
            if len(members) <= 40:
                _compare(res, name, m, members, opts)
    res['states'] = len(states)
    res['evaluations'] = len(states)
    res['impl_execs'] = len(states) * 2
    res['nontrivial'] = multi
    res['extra']['classes'] = len(groups)
    res['extra']['decoration_chars'] = {name: len(decor)}
    res['extra']['compact_raised'] = ncomp_err
    if sv and decor:
        res['samples'].append({'module': name, 'x': sv[0][1], 'y': decor[0] + sv[0][1], 'same_compact': True})
    return res


def replay(case):
    m = core.modules()[case['module']]
    res = Result()
    try:
        if m.compact(case['x']) != m.compact(case['y']):
            return []
    except Exception:
        return []
    _compare(res, case['module'], m, [(case['x'], (0, '', '')), (case['y'], (1, '', ''))],
             {k: core.dec(v) for k, v in case.get('options', {}).items()} or None)
    return res['violations']
