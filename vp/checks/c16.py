"""C16 — GS1-128 decoding and encoding are mutually consistent (DESIGN.md §2 C16)."""
import os
import re
import datetime
import decimal
import itertools

from .. import core
from ..core import Result, exc_site
from ..refs import gs1_witness

ID = 'C16'
TECHNIQUE = 'exhaustive enumeration of element strings built from every registered AI x witness values per declared format x AI combinations x separator x parentheses; decode/validate/encode round trips on the implementation'
RULE = ('states = element strings: every AI of gs1_ai.dat x every witness value of its declared format (min / max / mid '
        'lengths, digit patterns, dates incl. day 00 and times, decimals with 0-9 implied places) alone, and all ordered '
        'pairs of format classes (quick; thorough adds triples of class representatives and all witnesses in pairs) x '
        'separator in {none, |, [FNC1], GS} x parentheses on/off. oracle: info(validate(x)) == info(x), validate is a '
        'fixed point, info(encode(info(x))) == info(x) for both parentheses settings, parenthesised input decodes the same, '
        'and info(x) carries the values written in x (text as is, integers, decimals by implied places, currency + amount). '
        'non-trivial = element strings that decode.')
ASSUMPTIONS = ['witness values per format come from vp/refs/gs1_witness.py (written from the GS1 format notation)',
               'without a separator a variable-length value in a non-final position is used at its maximum length only']

SEPS = ['', '|', '[FNC1]', '\x1d']


def table():
    text = open(os.path.join(core.REPO, 'stdnum', 'gs1_ai.dat'), encoding='utf-8').read()
    return gs1_witness.ai_table(text)


def maxlen(fmt, typ):
    parts = re.findall(r'[NXYZ](?:\.\.)?([0-9]+)', fmt)
    n = sum(int(p) for p in parts)
    return n + (1 if typ == 'decimal' else 0)


def classes(tab):
    cl = {}
    for ai, fmt, typ, fnc1 in tab:
        cl.setdefault((fmt, typ, fnc1), []).append(ai)
    return cl


def plan(ctx):
    tab = table()
    cl = sorted(classes(tab))
    return [('single', i, 8, ctx['tier']) for i in range(8)] + [('pairs', i, len(cl), ctx['tier']) for i in range(len(cl))] + \
           ([('triples', i, 16, ctx['tier']) for i in range(16)] if ctx['tier'] == 'thorough' else []) + \
           [('full-then-two', i, 8, ctx['tier']) for i in range(8)]


def _canon(d):
    if isinstance(d, dict):
        return {k: _canon(v) for k, v in d.items()}
    if isinstance(d, (tuple, list)):
        return tuple(_canon(x) for x in d)
    if isinstance(d, decimal.Decimal):
        return ('D', str(d.normalize()) if d == d.to_integral_value() else str(d.normalize()), d == d)  # value
    return d


def _eqv(a, b):
    """Mapping equality with Decimal compared by value."""
    def norm(x):
        if isinstance(x, dict):
            return {k: norm(v) for k, v in x.items()}
        if isinstance(x, (tuple, list)):
            return tuple(norm(v) for v in x)
        if isinstance(x, decimal.Decimal):
            return ('D', x.normalize())
        return x
    return norm(a) == norm(b)


def _ref_value(fmt, typ, raw):
    if typ == 'str':
        return raw
    if typ == 'int' and raw.isdigit():
        return int(raw)
    if typ == 'decimal' and raw.isdigit():
        cur = None
        places, digits = int(raw[0]), raw[1:]
        if fmt.startswith('N3+'):
            cur, digits = raw[1:4], raw[4:]
        if not digits or places > len(digits):
            return None
        val = decimal.Decimal(int(digits)).scaleb(-places)
        return (cur, val) if cur is not None else val
    return None


def _call(f, *a, **k):
    from stdnum.exceptions import ValidationError
    try:
        return ('ok', f(*a, **k))
    except ValidationError as e:
        return ('verr', type(e).__name__)
    except Exception as e:  # noqa: B902
        return ('exc', '%s@%s' % (type(e).__name__, exc_site(e)))


def detail(fmt, typ, raw, last):
    if typ == 'decimal':
        places = int(raw[0])
        digits = raw[1:] if not fmt.startswith('N3+') else raw[4:]
        d = 'places=%d' % places if places < 6 else 'places>=6'
        if places and places >= len(digits):
            d += ':all-implied'
        if set(digits) == {'0'}:
            d += ':zero'
        if places == 0 and digits.startswith('0') and len(digits) > 1:
            d += ':leading-zero'
    elif typ == 'date':
        d = 'len=%d' % len(raw)
        if raw[4:6] == '00':
            d += ':day00'
        if len(raw) > 6 and raw[6:].strip('0') == '':
            d += ':midnight'
        elif len(raw) > 6 and raw.endswith('00'):
            d += ':zero-minutes-or-seconds'
    else:
        d = 'len=max' if len(raw) == maxlen(fmt, typ) else 'len<max'
        if typ == 'int' and raw.startswith('0') and len(raw) > 1:
            d += ':leading-zero'
        if ' ' in raw:
            d += ':space'
    return d + (':last' if last else ':not-last')


def build(items, sep, par):
    """items: [(ai, fmt, typ, fnc1, raw)] -> element string."""
    out = ''
    for i, (ai, fmt, typ, fnc1, raw) in enumerate(items):
        out += ('(%s)' % ai if par else ai) + raw
        if fnc1 and i < len(items) - 1:
            out += sep
    return out


_single_cache = {}


def evaluate(res, items, sep):
    """Report the clauses that fail for this AI sequence.  For sequences of several AIs a clause that already
    fails for one of the AIs alone (same value, same separator) is a consequence of that single-AI defect, which
    the single-AI sweep reports; only interaction defects are reported here."""
    tmp = Result()
    if len(items) == 1:
        r = _evaluate(tmp, items, sep)
        res['violations'].extend(tmp['violations'])
        return r
    alone = set()
    for it in items:
        k = (it[0], it[4], sep)
        if k not in _single_cache:
            t2 = Result()
            _evaluate(t2, [it], sep)
            _single_cache[k] = {v['clause'] for v in t2['violations']}
        alone |= _single_cache[k]
    r = _evaluate(tmp, items, sep)
    for v in tmp['violations']:
        if v['clause'] in alone or ('decode-fails' in alone) or ('encode-fails' in alone and v['clause'].startswith('encode')):
            res['extra']['consequences_of_single_ai_defects'] = res['extra'].get('consequences_of_single_ai_defects', 0) + 1
        else:
            res['violations'].append(v)
    return r


def _evaluate(res, items, sep):
    """All oracle clauses for one AI sequence and separator.  Returns 1 when the element string decodes."""
    from stdnum import gs1_128
    x = build(items, sep, False)
    kw = {'separator': sep} if sep else {}
    case = {'items': [[a, r] for a, f, t, n, r in items], 'separator': sep}
    key = '+'.join('%s %s%s' % (f, t, '*' if n else '') for a, f, t, n, r in items)
    dets = [detail(f, t, r, i == len(items) - 1) for i, (a, f, t, n, r) in enumerate(items)]

    def viol(clause, obs, which=None):
        # encode() re-orders the AIs, so a defect is named by the *set* of format classes and value details
        fam = ' + '.join(sorted({'%s %s%s' % (f, t, '*' if n else '') for a, f, t, n, r in items}))
        det = ';'.join(sorted({d_.rsplit(':', 1)[0] for d_ in dets}))
        res.viol(ID, clause, 'stdnum.gs1_128', 'codec', dict(case, clause=clause), obs, 'consistent decode/encode',
                 excinfo=fam, devclass='%s,%s,n=%d' % (det, 'sep' if sep else 'nosep', len(items)),
                 rank=[len(items), len(x), x])

    def differing(d1, d2):
        for i, (a, f, t, n, r) in enumerate(items):
            if not isinstance(d1, dict) or not isinstance(d2, dict) or not _eqv(d1.get(a), d2.get(a)):
                return i
        return 0

    d = _call(gs1_128.info, x, **kw)
    if d[0] != 'ok':
        viol('decode-fails', 'info(%r) -> %s' % (x, d[1]))
        return 0
    d = d[1]
    if sorted(d) != sorted(a for a, f, t, n, r in items) and len({a for a, f, t, n, r in items}) == len(items):
        viol('decode-wrong-ais', 'info(%r) = %r' % (x, d))
        return 0
    # the decoded values are the values written in the element string (reading of the format notation: X = text as
    # is, N with type int = the number, decimals = digits after the first with that many implied places, N3+ = currency
    # code and amount); dates are left to the clauses below
    for a, f, t, n_, r in items:
        ref = _ref_value(f, t, r)
        if ref is not None and a in d and not _eqv(d[a], ref):
            viol('decode-differs-from-reference', 'info(%r)[%r] = %r, the element string carries %r' % (x, a, d[a], ref))
            break
    # parenthesised input decodes the same
    xp = build(items, sep, True)
    dp = _call(gs1_128.info, xp, **kw)
    if dp[0] != 'ok' or not _eqv(dp[1], d):
        viol('parentheses-change-decoding', 'info(%r) = %r but info(%r) = %r' % (x, d, xp, dp[1]), differing(d, dp[1]))
    v = _call(gs1_128.validate, x, **kw)
    if v[0] != 'ok':
        viol('validate-rejects-decodable', 'info(%r) works but validate -> %s' % (x, v[1]))
    else:
        dv = _call(gs1_128.info, v[1], **kw)
        if dv[0] != 'ok' or not _eqv(dv[1], d):
            viol('validated-form-decodes-differently', 'info(%r) = %r but validate gives %r which decodes to %r' % (x, d, v[1], dv[1]),
                 differing(d, dv[1]))
        v2 = _call(gs1_128.validate, v[1], **kw)
        if v2[0] != 'ok' or v2[1] != v[1]:
            viol('validate-not-fixed-point', 'validate(%r) = %r, again -> %r' % (x, v[1], v2[1]))
    for par in (False, True):
        e = _call(gs1_128.encode, d, sep, par)
        if e[0] != 'ok':
            viol('encode-fails', 'encode(%r, %r, %r) -> %s' % (d, sep, par, e[1]))
            continue
        de = _call(gs1_128.info, e[1], **kw)
        if de[0] != 'ok' or not _eqv(de[1], d):
            viol('encode-decode-differs', 'info(%r) = %r; encode(parentheses=%s) gives %r which decodes to %r' % (x, d, par, e[1], de[1]),
                 differing(d, de[1]))
    return 1


def _wit(ai, fmt, typ, quick):
    ws = gs1_witness.witnesses(ai, fmt, typ)
    return ws


def _fits(items, sep):
    """Without a separator a variable-length value that is not last must have maximum length."""
    if sep:
        return True
    for i, (ai, fmt, typ, fnc1, raw) in enumerate(items[:-1]):
        if fnc1 and len(raw) != maxlen(fmt, typ):
            return False
    return True


def work(item):
    kind, idx, nparts, tier = item
    res = Result()
    tab = table()
    quick = tier != 'thorough'
    n = ok = 0
    skipped = set()
    if kind == 'full-then-two':
        # a variable-length value at its maximum length followed by two more variable-length values (with and
        # without separator): the place where "implicitly terminated" shortcuts go wrong
        var = [(ai, fmt, typ, fnc1) for ai, fmt, typ, fnc1 in tab if fnc1]
        seen_cls = set()
        firsts = []
        for ai, fmt, typ, fnc1 in var:
            if (fmt, typ) in seen_cls:
                continue
            ws = [w for w in _wit(ai, fmt, typ, quick) if len(w) == maxlen(fmt, typ)]
            if ws:
                seen_cls.add((fmt, typ))
                firsts.append((ai, fmt, typ, fnc1, ws[0]))
        tails = [('21', 'X..20', 'str', True, 'S1'), ('22', 'X..20', 'str', True, 'V'), ('400', 'X..30', 'str', True, 'X'),
                 ('401', 'X..30', 'str', True, 'Y'), ('37', 'N..8', 'int', True, '7'), ('10', 'X..20', 'str', True, 'B')]
        for j, f in enumerate(firsts):
            if j % nparts != idx:
                continue
            for a in tails:
                for b in tails:
                    if len({f[0], a[0], b[0]}) < 3:
                        continue
                    for sep in ('|', '\x1d', '[FNC1]', ''):
                        items = [f, a, b]
                        if not _fits(items, sep):
                            items = [f, (a[0], a[1], a[2], a[3], (a[4] * 40)[:maxlen(a[1], a[2])] if a[2] == 'str' else '9' * maxlen(a[1], a[2])), b]
                            if not _fits(items, sep):
                                continue
                        n += 1
                        ok += evaluate(res, items, sep)
    elif kind == 'single':
        for k, (ai, fmt, typ, fnc1) in enumerate(tab):
            if k % nparts != idx:
                continue
            ws = _wit(ai, fmt, typ, quick)
            if not ws:
                # formats the generator does not produce: a minimal probe so that undecodable AIs are still seen
                ws = ['0' * 6] if fmt.startswith('N6') else ['A']
                skipped.add('%s %s' % (fmt, typ))
            for raw in ws:
                for sep in SEPS:
                    n += 1
                    ok += evaluate(res, [(ai, fmt, typ, fnc1, raw)], sep)
    else:
        cl = classes(tab)
        keys = sorted(cl)
        reps = {}
        for key in keys:
            ai = cl[key][0]
            ws = _wit(ai, key[0], key[1], quick)
            if ws:
                picks = [ws[0], ws[-1]] if quick else ws
                # a maximum-length witness is needed for non-final positions without separator
                mx = [w for w in ws if len(w) == maxlen(key[0], key[1])]
                if mx and mx[0] not in picks:
                    picks.append(mx[0])
                reps[key] = (ai, list(dict.fromkeys(picks)))
        if kind == 'pairs':
            k1 = keys[idx]
            if k1 in reps:
                a1, w1s = reps[k1]
                for k2 in keys:
                    if k2 not in reps:
                        continue
                    ais2 = cl[k2] if k2 != k1 else cl[k2][1:]
                    if not ais2:
                        continue
                    # every AI of the class appears at least once as the second element (first witness);
                    # the class representative gets all witness combinations
                    a2 = ais2[0]
                    w2s = _wit(a2, k2[0], k2[1], quick)
                    if not w2s:
                        continue
                    w2pick = [w2s[0], w2s[-1]]
                    for r1 in w1s:
                        for r2 in dict.fromkeys(w2pick):
                            for sep in SEPS:
                                for order in (0, 1):
                                    items = [(a1, k1[0], k1[1], k1[2], r1), (a2, k2[0], k2[1], k2[2], r2)]
                                    if order:
                                        items.reverse()
                                    if not _fits(items, sep):
                                        continue
                                    n += 1
                                    ok += evaluate(res, items, sep)
                # each further AI of class k1 once with a fixed partner (AI 00 SSCC, N18)
                for a in cl[k1][1:]:
                    ws = _wit(a, k1[0], k1[1], quick)
                    if ws and a != '00':
                        items = [('00', 'N18', 'str', False, '0' * 18), (a, k1[0], k1[1], k1[2], ws[0])]
                        for sep in ('', '|'):
                            n += 1
                            ok += evaluate(res, items, sep)
        else:
            trip = [k for k in keys if k in reps]
            cnt = 0
            for ka, kb, kc in itertools.permutations(trip[::3], 3):
                cnt += 1
                if cnt % nparts != idx:
                    continue
                items = [(reps[k][0], k[0], k[1], k[2], reps[k][1][-1]) for k in (ka, kb, kc)]
                if len({i[0] for i in items}) < 3:
                    continue
                for sep in ('', '|'):
                    if _fits(items, sep):
                        n += 1
                        ok += evaluate(res, items, sep)
    res['states'] = n
    res['transitions'] = n * 8
    res['evaluations'] = n
    res['impl_execs'] = n * 8
    res['nontrivial'] = ok
    res['extra']['formats_without_witness_generator'] = skipped
    res['extra']['ais'] = len(tab)
    res['extra']['format_classes'] = len(classes(tab))
    if n and kind == 'single':
        ai, fmt, typ, fnc1 = tab[idx]
        ws = _wit(ai, fmt, typ, quick) or ['?']
        res['samples'].append({'element_string': ai + ws[0], 'format': fmt, 'type': typ})
    return res


def replay(case):
    res = Result()
    tab = {a: (f, t, n) for a, f, t, n in table()}
    items = []
    for a, r in case['items']:
        if a not in tab:
            return []
        f, t, n = tab[a]
        items.append((a, f, t, n, r))
    evaluate(res, items, case['separator'])
    return [v for v in res['violations'] if v['case']['clause'] == case['clause']]
