"""C12 — derived attributes are total and consistent on valid numbers (DESIGN.md §2 C12)."""
import datetime
import inspect

from .. import core, e2, clock
from ..core import Result, exc_site
from ..tables import c12_getters as T

ID = 'C12'
TECHNIQUE = 'explicit-state search of the accepted-number graph (E2) x clock menu; every getter executed on every reached valid number, kind/consistency invariant'
RULE = ('states = (module, getter, valid number, clock): every discovered derived-attribute function (get_*, info, '
        'split, *_type, guess_*, mask, is_*) x every valid number reached by E2 (seeds in written and canonical '
        'spelling, same-class substitutions + check repair) x clock menu for modules that read the clock. '
        'invariant: documented kind or ValidationError; dates agree with the digits and with year/month getters; '
        'split() re-joins. non-trivial = distinct (getter, number) pairs that returned a value.')
ASSUMPTIONS = ['kinds by function name and date field maps are in vp/tables/c12_getters.py (from module docstrings)',
               'getter options (minyear, allow_future, separator) are explored at their defaults only']


def getters(name, m):
    out = []
    for n, f in sorted(vars(m).items()):
        if n.startswith('_') or n in T.SKIP or not inspect.isfunction(f):
            continue
        if n.startswith(T.SKIP_PREFIX):
            continue
        if f.__module__ != name:
            # getters re-exported from another stdnum number module (lt.asmens.get_birth_date is ee.ik's) are part
            # of this module's public interface; helpers imported from stdnum.util etc. are not
            if not (f.__module__.startswith('stdnum.') and f.__module__ not in ('stdnum.util', 'stdnum.numdb', 'stdnum.exceptions')
                    and n.startswith(('get_', 'info', 'split', 'guess_'))):
                continue
        try:
            ps = list(inspect.signature(f).parameters.values())
        except (TypeError, ValueError):
            continue
        if len([p for p in ps if p.default is inspect.Parameter.empty]) != 1:
            continue
        out.append(n)
    return out


def plan(ctx):
    return [(name, ctx['tier']) for name, m in core.modules().items() if getters(name, m)]


def _call(f, x):
    from stdnum.exceptions import ValidationError
    try:
        return ('ok', f(x))
    except ValidationError as e:
        return ('verr', type(e).__name__)
    except KeyboardInterrupt:
        raise
    except BaseException as e:  # noqa: B902
        return ('exc', type(e).__name__, exc_site(e))


def _eval(res, name, m, fn, x, v, clk, cache, opts=None):
    """x: presentation passed to the getter, v: canonical number."""
    f0 = getattr(m, fn)
    opts = opts or {}
    f = (lambda y: f0(y, **opts)) if opts else f0
    o = _call(f, x)
    case = {'module': name, 'getter': fn, 'number': x, 'canonical': v, 'clock': clk.isoformat() if clk else None,
            'options': {k: core.enc(val) for k, val in opts.items()}}
    base_fn = fn
    if opts:
        fn = fn + '(' + ','.join(sorted(opts)) + ')'
    rank = [0, len(x), x]
    ln = 'len%d' % len(v)
    if o[0] == 'exc':
        res.viol(ID, 'getter-raises', name, fn, case, '%s at %s' % (o[1], o[2]), 'documented kind or ValidationError',
                 excinfo='%s@%s' % (o[1], o[2]), devclass=ln, rank=rank)
        return 0
    if o[0] == 'verr':
        return 0
    r = o[1]
    bad = T.kind_ok(name, base_fn, r)
    if bad:
        res.viol(ID, 'wrong-kind', name, fn, case, 'returned %r' % (r,), bad, excinfo=type(r).__name__, devclass=ln, rank=rank)
        return 1
    if base_fn == 'get_birth_date' and isinstance(r, datetime.date):
        fields = T.DATE_FIELDS.get(name)
        if fields is not None and x == v:
            yy, mm, dd = fields(v)
            got = (r.year % 100, r.month, r.day)
            exp = (yy, mm, dd)
            if any(e is not None and e != g for e, g in zip(exp, got)):
                res.viol(ID, 'date-disagrees-with-digits', name, fn, case,
                         'date %s but digits encode (yy, mm, dd) = %r' % (r.isoformat(), exp), 'agreement',
                         devclass=ln, rank=rank)
        yr = T.YEAR_RULES.get(name)
        if yr is not None and x == v and not opts:
            try:
                expy = yr(v)
            except Exception:
                expy = None
            if expy is not None and expy != r.year:
                res.viol(ID, 'date-disagrees-with-century-digits', name, fn, case,
                         'date %s but the digits of %r encode the year %d' % (r.isoformat(), v, expy), 'agreement',
                         devclass=ln, rank=rank)
        rule = T.CENTURY_RULES.get(name)
        if rule is not None and x == v:
            why = rule(v, r, clk or datetime.date.today())
            if why:
                res.viol(ID, 'date-disagrees-with-century-marker', name, fn, case, 'date %s: %s' % (r.isoformat(), why),
                         'documented century rule', devclass=ln, rank=rank)
        for other, attr in (('get_birth_year', 'year'), ('get_birth_month', 'month')):
            g = getattr(m, other, None)
            if g is not None:
                o2 = _call(g, x)
                if o2[0] == 'ok' and o2[1] is not None and o2[1] != getattr(r, attr):
                    res.viol(ID, 'date-disagrees-with-' + attr, name, fn, case,
                             'date %s but %s() = %r' % (r.isoformat(), other, o2[1]), 'agreement', devclass=ln, rank=rank)
    exp = T.TYPE_BY_LENGTH.get((name, base_fn))
    if exp is not None and x == v and len(v) in exp and r != exp[len(v)]:
        res.viol(ID, 'type-disagrees-with-length', name, fn, case, '%s(%r) = %r' % (fn, v, r), exp[len(v)],
                 devclass=ln, rank=rank)
    if name == 'stdnum.mac' and base_fn == 'get_oui' and x == v and not opts:
        # the OUI is a prefix of the address and, with get_iab(), makes up the whole address
        hexv = ''.join(c for c in v if c.isalnum()).upper()
        iab = _call(getattr(m, 'get_iab'), v)
        if not (isinstance(r, str) and hexv.startswith(r.upper()) and (iab[0] != 'ok' or r.upper() + str(iab[1]).upper() == hexv)):
            res.viol(ID, 'oui-is-not-a-prefix', name, fn, case, 'get_oui(%r) = %r, get_iab = %r' % (v, r, iab[1:2]),
                     'OUI + IAB = address', devclass=ln, rank=rank)
    if base_fn == 'split':
        joined = ''.join(r)
        targets = {v}
        if opts.get('convert'):
            targets = set()
        for conv in (('to_isbn13',) if opts.get('convert') else ('compact', 'to_ismn13', 'to_isbn13')):
            # the documented 13-digit presentation of ISMN/ISBN is an accepted normalisation
            try:
                targets.add(getattr(m, conv)(x))
            except Exception:
                pass
        def alnum(t):
            return ''.join(c for c in t if c.isalnum())
        if joined not in targets and alnum(joined) not in {alnum(t) for t in targets}:
            res.viol(ID, 'split-does-not-rejoin', name, fn, case, 'split(%r) = %r joins to %r, canonical %r'
                     % (x, r, joined, v), 'parts concatenate to the canonical number', devclass=ln, rank=rank)
    return 1


def work(item):
    name, tier = item
    m = core.modules()[name]
    res = Result()
    clock.install()
    clock.set_today(None)
    clock.reset_calls()
    quick = tier != 'thorough'
    gs = getters(name, m)
    values, st = e2.valid_set(name, m, tier, nseeds=8 if quick else 40, cap=400 if quick else 5000,
                              depth=1 if quick else 2)
    from .. import seeds as seedmod, synth
    sv0 = seedmod.seeds(name, 4)
    extra = synth.date_numbers(name, m, sv0)
    reg = [x for x in synth.registry_inputs(name, m, sv0, limit=300 if quick else 4000,
                                            funcs=tuple(['validate'] + gs)) if e2._accepts(m, x, {})]
    shorter = set()
    for v in values[:300 if quick else 5000]:
        for t in (v[:-1], v[:-2], v + '0', v + '00'):
            if t not in shorter and e2._accepts(m, t, {}):
                shorter.add(t)
    res['extra']['length_variants'] = {name: len(shorter)} if shorter else {}
    values = sorted(set(values) | set(extra) | set(reg[:1500 if quick else 100000]) | shorter)
    res['extra']['synth_date_numbers'] = {name: len(extra)} if extra else {}
    res['extra']['synth_registry_numbers'] = {name: len(reg)} if reg else {}
    pres = [(s, v) for s, v in seedmod.seeds(name, 20 if quick else None) if s != v]
    n = ok = 0
    from ..tables.options import option_sets
    for fn in gs:
        for v in values:
            n += 1
            ok += _eval(res, name, m, fn, v, v, None, None)
        # each single non-default boolean option (and lowest-year option) of the getter itself
        for o in option_sets(name, getattr(m, fn))[0][1:]:
            if not all(isinstance(val, bool) or k in ('minyear',) for k, val in o.items()):
                continue
            for v in values[:200 if quick else 3000]:
                n += 1
                ok += _eval(res, name, m, fn, v, v, None, None, o)
        for s, v in pres:
            n += 1
            ok += _eval(res, name, m, fn, s, v, None, None)
    readers = clock.calls()
    if readers:
        for d in clock.MENU[1:] if not quick else (clock.MENU[2], clock.MENU[5]):
            clock.set_today(d)
            for fn in gs:
                for v in values:
                    # numbers valid today need not be valid under another clock answer; the getter contract still holds
                    n += 1
                    ok += _eval(res, name, m, fn, v, v, d, None)
        clock.set_today(None)
        res['extra']['clock_readers'] = {name: sorted(readers)}
    res['states'] = n
    res['transitions'] = st['tried'] + n
    res['evaluations'] = n
    res['impl_execs'] = n + st['tried']
    res['nontrivial'] = ok
    res['extra']['getters'] = {name: gs}
    res['extra']['valid_numbers'] = {name: len(values)}
    if values:
        res['samples'].append({'module': name, 'getter': gs[0], 'number': values[len(values) // 2]})
    return res


def replay(case):
    name = case['module']
    m = core.modules()[name]
    res = Result()
    clock.install()
    clock.set_today(datetime.date.fromisoformat(case['clock']) if case.get('clock') else None)
    _eval(res, name, m, case['getter'], case['number'], case['canonical'],
          datetime.date.fromisoformat(case['clock']) if case.get('clock') else None, None,
          {k: core.dec(val) for k, val in case.get('options', {}).items()})
    clock.set_today(None)
    return res['violations']
