"""C05 — check-digit generators and validators agree (DESIGN.md §2 C05)."""
import inspect

from .. import core, e2
from ..core import Result, outcome
from ..tables import c05_shapes

ID = 'C05'
TECHNIQUE = 'explicit-state search of the accepted-number graph (E2) + exhaustive enumeration of check-position alternatives and of single-substitution payload neighbours, generator vs validator on the implementation'
RULE = ('states = for every generator row of the shape table and every valid number reached by E2: (i) the '
        'generated check character(s) vs the ones present; (ii) every other character of the check alphabet at '
        'every check position must be rejected; (iii) every single same-class substitution in the payload, '
        'completed with the generated check character(s), must not be rejected with InvalidChecksum. '
        'non-trivial = distinct (module, generator, valid number) triples evaluated.')
ASSUMPTIONS = ['vp/tables/c05_shapes.py states payload slice and check positions per generator (from docstrings); '
               'rows that do not apply to a number are skipped and counted',
               'numbers on a documented whitelist (do.rnc, do.cedula) are not required to match the generator']


def _generators(m, name):
    return [n for n in dir(m) if n.startswith('calc_') and 'check' in n and inspect.isfunction(getattr(m, n))
            and getattr(m, n).__module__ == name]


def plan(ctx):
    out = []
    for name, m in core.modules().items():
        if c05_shapes.rows(name, m):
            out.append((name, ctx['tier']))
    return out


def _spellings(m, v, kw):
    out = []
    cands = [('lower', v.lower()), ('space2', v[:2] + ' ' + v[2:]), ('space4', v[:4] + ' ' + v[4:]), ('space-mid', v[:len(v) // 2] + ' ' + v[len(v) // 2:]),
             ('spaces', ' '.join(v[i:i + 2] for i in range(0, len(v), 2))), ('lead-space', ' ' + v)]
    if hasattr(m, 'format'):
        try:
            cands.append(('format', m.format(v)))
        except Exception:
            pass
    for nm, sp in cands:
        try:
            if sp != v and m.validate(sp, **kw) == v:
                out.append((nm, sp))
        except Exception:
            pass
    return out


def _gen(f, arg, gkw=None):
    try:
        return ('ok', f(arg, **(gkw or {})))
    except Exception as e:  # noqa: B902
        return ('exc', type(e).__name__)


def _matches(g, present, alternatives):
    if g[0] != 'ok':
        return False
    if alternatives:
        return present in g[1]
    return g[1] == present


def _eval(res, name, m, gname, shape, opts, v, stats, observed=None):
    f = getattr(m, gname, None)
    if f is None:
        stats['rows_skipped'] += 1
        return
    sh = shape(v)
    if sh is None:
        return
    kw = opts.get('kw', {})
    gkw = opts.get('gkw', {})
    alt = opts.get('alternatives', False)
    arg, pos = sh
    pos = tuple(p % len(v) for p in pos)
    present = ''.join(v[p] for p in pos)
    whitelist = getattr(m, 'whitelist', None)
    if whitelist and v in whitelist:
        return
    if len(pos) > 1 and not all(c in e2.D for c in present):
        return   # multi-digit numeric checks: only numbers whose check characters are digits are in scope
    stats['triples'] += 1
    g = _gen(f, arg, gkw)
    case = {'module': name, 'generator': gname, 'number': v, 'gkw': {k: core.enc(x) for k, x in gkw.items()}}
    if not _matches(g, present, alt):
        res.viol(ID, 'generator-differs', name, gname, dict(case, clause='i'),
                 '%s(%r) -> %r but valid number %r carries %r' % (gname, arg, g[1], v, present),
                 'generated == present', devclass='len%d' % len(v), rank=[0, len(v), v])
    # (i') the generator is given the full number in these rows and compacts it itself: presentations that validate()
    # accepts as this very number must give the same check characters
    if arg == v and not gkw and opts.get('spellings', True):
        sps = [(sname, sp, _gen(f, sp, gkw)) for sname, sp in _spellings(m, v, kw)]
        stats['evals'] += len(sps)
        # a generator that fails on some accepted presentation does not take presentations at all (nothing says it
        # should); one that handles them all must compute the same check characters for all of them
        if sps and all(g3[0] == 'ok' for _n, _s, g3 in sps):
            for sname, sp, g3 in sps:
                if g3 != g:
                    res.viol(ID, 'generator-depends-on-spelling', name, gname, dict(case, clause="i'", spelling=sp),
                             '%s(%r) -> %r but %s(%r) -> %r (validate() reads both as %r)' % (gname, v, g[1], gname, sp, g3[1], v),
                             'same check characters', devclass=sname, rank=[1, len(sp), sp])
    # (ii) alternatives at the check positions
    alphabet = set(e2.D)
    for p in pos:
        alphabet |= set(e2.same_class(v[p]))
    if len(pos) == 1 and v[pos[0]] in e2.D + 'XK':
        alphabet |= set('XK')
    if observed and len(pos) == 1:
        # single check characters: the alphabet observed at that position over all explored valid numbers
        # (multi-digit numeric checks are compared over digits only)
        for p in pos:
            alphabet |= observed.get((len(v), p), set())
    for p in pos:
        for c in sorted(alphabet):
            if c == v[p]:
                continue
            w = v[:p] + c + v[p + 1:]
            stats['evals'] += 1
            o = outcome(m.validate, w, **kw)
            if o[0] == 'ok':
                cand = ''.join(w[q] for q in pos)
                gw = _gen(f, shape(w)[0], gkw) if shape(w) else ('none',)
                if alt and gw[0] == 'ok' and cand in gw[1]:
                    continue   # documented alternative check character
                res.viol(ID, 'other-check-accepted', name, gname, dict(case, clause='ii', mutant=w),
                         'valid %r; changing check position %d to %r is accepted too' % (v, p, c),
                         'rejected', devclass='len%d:%s' % (len(v), 'digit' if c in e2.D else 'letter'),
                         rank=[0, len(v), v + w])
    # (iii) converse: payload neighbours completed with the generated check
    for i, ch in enumerate(v):
        if i in pos:
            continue
        for c in e2.same_class(ch):
            if c == ch:
                continue
            w = v[:i] + c + v[i + 1:]
            sh2 = shape(w)
            if sh2 is None:
                continue
            g2 = _gen(f, sh2[0], gkw)
            if g2[0] != 'ok' or not isinstance(g2[1], str):
                continue
            cands = [g2[1]] if not alt else list(g2[1])
            for cd in cands:
                if len(cd) != len(pos):
                    continue
                u = list(w)
                for p, cc in zip(pos, cd):
                    u[p] = cc
                u = ''.join(u)
                stats['evals'] += 1
                o = outcome(m.validate, u, **kw)
                if o[0] == 'verr' and o[1] == 'InvalidChecksum':
                    # a second, independent check digit may protect the same payload (two-check formats)
                    if len(c05_shapes.rows(name, m)) > 1 or opts.get('two_check'):
                        stats['two_check_skips'] += 1
                        continue
                    res.viol(ID, 'generated-rejected', name, gname, dict(case, clause='iii', completed=u),
                             'payload of %r completed with generated %r gives %r which is rejected with InvalidChecksum'
                             % (w, cd, u), 'not InvalidChecksum', devclass='len%d' % len(v), rank=[0, len(v), u])
                elif o[0] == 'ok':
                    stats['completed_accepted'] += 1


def work(item):
    name, tier = item
    m = core.modules()[name]
    res = Result()
    rows = c05_shapes.rows(name, m)
    stats = {'rows_skipped': 0, 'triples': 0, 'evals': 0, 'two_check_skips': 0, 'completed_accepted': 0}
    seen = set()
    # option dimension: each single non-default option shared by the generator and validate()
    from ..tables.options import option_sets
    rows2 = []
    for gname, shape, opts in rows:
        rows2.append((gname, shape, opts))
        f = getattr(m, gname, None)
        if f is None:
            continue
        for o in option_sets(name, f, m.validate)[0][1:]:
            o2 = dict(opts)
            o2['kw'] = dict(opts.get('kw', {}), **o)
            o2['gkw'] = dict(o)
            rows2.append((gname, shape, o2))
    rows = rows2
    for gname, shape, opts in rows:
        kw = opts.get('kw', {})
        values, st = e2.valid_set(name, m, tier, nseeds=5 if tier != 'thorough' else 30, kw=kw,
                                  cap=120 if tier != 'thorough' else 3000)
        stats['evals'] += st['tried']
        observed = {}
        for v in values:
            sh = shape(v)
            if sh:
                for p_ in sh[1]:
                    observed.setdefault((len(v), p_ % len(v)), set()).add(v[p_ % len(v)])
        for v in values:
            _eval(res, name, m, gname, shape, opts, v, stats, observed)
        seen |= set(values)
    res['states'] = stats['evals'] + stats['triples']
    res['transitions'] = stats['evals']
    res['evaluations'] = stats['evals']
    res['impl_execs'] = stats['evals']
    res['nontrivial'] = stats['triples']
    res['extra']['rows_skipped'] = stats['rows_skipped']
    res['extra']['completed_accepted'] = stats['completed_accepted']
    res['extra']['two_check_skips'] = stats['two_check_skips']
    res['extra']['generators_without_row'] = {name: sorted(set(_generators(m, name)) - {r[0] for r in rows})} \
        if set(_generators(m, name)) - {r[0] for r in rows} else {}
    res['extra']['modules_with_no_triple'] = [name] if not stats['triples'] else []
    if seen:
        res['samples'].append({'module': name, 'generator': rows[0][0], 'number': sorted(seen)[0]})
    return res


def replay(case):
    name = case['module']
    m = core.modules()[name]
    res = Result()
    stats = {'rows_skipped': 0, 'triples': 0, 'evals': 0, 'two_check_skips': 0, 'completed_accepted': 0}
    gkw = {k: core.dec(x) for k, x in case.get('gkw', {}).items()}
    if gkw:
        # a disagreement under an option may need the calls made before it (a table cached by an earlier option): the
        # module's whole sequence of evaluations is repeated first, in this still untouched process
        r2 = work((name, 'quick'))
        out = [dict(v, sig=None) for v in r2['violations'] if v['case'].get('clause') == case.get('clause')
               and v['case'].get('generator') == case.get('generator') and v['case'].get('gkw') == case.get('gkw')][:1]
        if out:
            return out
    for gname, shape, opts in c05_shapes.rows(name, m):
        if gname == case['generator']:
            o2 = dict(opts)
            if case.get('clause') == "i'" and gkw:
                continue
            if gkw:
                o2['kw'] = dict(opts.get('kw', {}), **gkw)
                o2['gkw'] = gkw
            obs = {}
            if case.get('mutant'):
                sh = shape(case['number'])
                if sh:
                    for p_ in sh[1]:
                        obs.setdefault((len(case['number']), p_ % len(case['number'])), set()).add(case['mutant'][p_ % len(case['number'])])
            _eval(res, name, m, gname, shape, o2, case['number'], stats, obs)
    return [v for v in res['violations'] if v['case'].get('clause') == case.get('clause')]
