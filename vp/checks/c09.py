"""C09 — aggregate validators accept exactly what their constituent formats accept (DESIGN.md §2 C09)."""
import importlib

from .. import core, e2
from ..core import Result, outcome

ID = 'C09'
TECHNIQUE = 'explicit-state search of the accepted-number graph of every constituent + exhaustive single-edit neighbours x prefix/case variants; wrapper vs constituent on the same input, on the implementation'
RULE = ('states = (relation, input): for every (wrapper, constituent) relation of the table, every valid number of every '
        'constituent reached by E2, all its single-edit neighbours (same-class substitution, deletion, transposition), each in '
        'the spellings {as is, CC+n, cc+n, "CC "+n, CC+CC+n} and - for the EU relation - under the prefix of every other code; '
        'oracle: dispatch = equivalence on the same input and prefixed result, union = equivalence with "some constituent '
        'accepts", superset / wrapping = implications, delegation (sk.dph>sk.rc, cz.dic>cz.rc, ro.cf>cnp/cui, bg.vat>egn/pnf, '
        'id.npwp>nik, it.codicefiscale>iva, fi.ytunnus>alv) = implication on the inputs the wrapper hands over, equivalence '
        'where it hands them over unconditionally, guessers list exactly the accepting constituents. '
        'non-trivial = inputs accepted by the wrapper or by a constituent.')
ASSUMPTIONS = ['the 29 EU VAT codes and the module each one names are written out in this file (not read from MEMBER_STATES)',
               'nothing is demanded of vatin outside what eu.vat accepts',
               'the dispatch conditions of the delegating validators (length / first digit) are restated in DELEGATES']

# EU VAT code -> the national module that validates it (29 codes: 27 member states + XI + EL alias)
EU = {
    'AT': 'at.uid', 'BE': 'be.vat', 'BG': 'bg.vat', 'CY': 'cy.vat', 'CZ': 'cz.dic', 'DE': 'de.vat', 'DK': 'dk.cvr',
    'EE': 'ee.kmkr', 'ES': 'es.nif', 'FI': 'fi.alv', 'FR': 'fr.tva', 'EL': 'gr.vat', 'HR': 'hr.oib', 'HU': 'hu.anum',
    'IE': 'ie.vat', 'IT': 'it.iva', 'LT': 'lt.pvm', 'LU': 'lu.tva', 'LV': 'lv.pvn', 'MT': 'mt.vat', 'NL': 'nl.btw',
    'PL': 'pl.nip', 'PT': 'pt.nif', 'RO': 'ro.cf', 'SE': 'se.vat', 'SI': 'si.ddv', 'SK': 'sk.dph', 'XI': 'gb.vat',
}
GUESS_CODE = {'EL': 'gr'}       # guess_country() documents gr for Greece; other codes lower-cased
UNIONS = {
    'us.tin': (('ssn', 'us.ssn'), ('itin', 'us.itin'), ('ein', 'us.ein'), ('ptin', 'us.ptin'), ('atin', 'us.atin')),
    'be.ssn': (('bis', 'be.bis'), ('nn', 'be.nn')),
    'th.tin': (('moa', 'th.moa'), ('pin', 'th.pin')),
}
GUESSERS = {'us.tin': ('guess_type', 'list'), 'be.ssn': ('guess_type', 'first'), 'th.tin': ('tin_type', 'first')}
SUPERSETS = {'es.nif': ('es.dni', 'es.nie', 'es.cif')}
# wrapper -> rows (constituent, projection of an input to what the constituent is asked or None when the wrapper
# does not delegate that input, exact): constituent accepts => wrapper accepts with the same result; with exact
# also wrapper accepts => constituent accepts.  The projections restate the dispatch conditions of the wrapper.
def _dig(x, lens):
    return x if x.isascii() and x.isdigit() and len(x) in lens else None


DELEGATES = {
    'sk.dph': [('sk.rc', lambda x: _dig(x, (10,)), False)],
    'cz.dic': [('cz.rc', lambda x: None if _dig(x, (9, 10)) is None or (len(x) == 9 and x[0] == '6') else x, True)],
    'ro.cf': [('ro.cnp', lambda x: _dig(x, (13,)), True), ('ro.cui', lambda x: _dig(x, tuple(range(2, 11))), True)],
    'bg.vat': [('bg.egn', lambda x: _dig(x, (10,)), False), ('bg.pnf', lambda x: _dig(x, (10,)), False)],
    'id.npwp': [('id.nik', lambda x: None if _dig(x, (16,)) is None or x[0] == '0' else x, True)],
    'it.codicefiscale': [('it.iva', lambda x: _dig(x, (11,)), True)],
    'fi.ytunnus': [('fi.alv', lambda x: _dig(x, (8,)), True)],
}
DELEGATE_PREFIX = {'sk.dph': ('SK',), 'cz.dic': ('CZ',), 'ro.cf': ('RO', 'ro'), 'bg.vat': ('BG',), 'fi.ytunnus': ()}
NATIONAL_IBAN = ('be', 'es', 'no', 'me')
# wrapper -> (wrapped, projection of the wrapper's result that the wrapped validator must accept,
#             spelling of a valid wrapped number that the wrapper must accept)
WRAPS = {
    'ch.vat': ('ch.uid', lambda r: r[:12], lambda w: [w + s for s in ('MWST', 'TVA', 'IVA')]),
    'se.vat': ('se.orgnr', lambda r: r[:-2], lambda w: [w.replace('-', '') + '01', 'SE' + w.replace('-', '') + '01']),
    'no.mva': ('no.orgnr', lambda r: r[:-3], lambda w: [w + 'MVA', 'NO' + w + 'MVA', 'NO ' + w + ' MVA']),
    'sk.rc': ('cz.rc', lambda r: r, lambda w: [w]),
    # the national IBAN modules wrap the national account number in the BBAN
    'no.iban': ('no.kontonr', lambda r: r[4:], lambda w: [mod('no.kontonr').to_iban(w)]),
    'es.iban': ('es.ccc', lambda r: r[4:], lambda w: [mod('es.ccc').to_iban(w)]),
    'cz.rc': ('sk.rc', lambda r: r, lambda w: [w]),
}


# wrapper -> the accepted result is exactly the wrapped number plus the documented decoration
WRAP_REST = {
    'ch.vat': lambda r, u: r[:12] == u and r[12:] in ('MWST', 'TVA', 'IVA', 'TPV'),
    'se.vat': lambda r, u: r == u + '01',
    'no.mva': lambda r, u: r in (u + 'MVA',),
}


def mod(name):
    return importlib.import_module('stdnum.' + name)


def plan(ctx):
    t = ctx['tier']
    return [('eu', cc, t) for cc in sorted(EU)] + [('union', w, t) for w in sorted(UNIONS)] + \
           [('superset', w, t) for w in sorted(SUPERSETS)] + [('delegate', w, t) for w in sorted(DELEGATES)] + [('iban', cc, t) for cc in NATIONAL_IBAN + ('generic',)] + \
           [('wrap', w, t) for w in sorted(WRAPS)] + [('eu-cross', 'all', t), ('oss', 'oss', t)]


def neighbours(v):
    out = []
    for i, ch in enumerate(v):
        cls = e2.same_class(ch)
        if cls:
            for c in (cls[0], cls[1], cls[-1]):
                if c != ch:
                    out.append(v[:i] + c + v[i + 1:])
        out.append(v[:i] + v[i + 1:])
        out.append(v[:i] + ('X' if ch.isalpha() else '0') + v[i:])       # one more character of the same kind
        if i + 1 < len(v) and v[i] != v[i + 1]:
            out.append(v[:i] + v[i + 1] + v[i] + v[i + 2:])
    return out


def valid_numbers(name, tier, cap=None):
    m = mod(name)
    quick = tier != 'thorough'
    vals, st = e2.valid_set('stdnum.' + name, m, tier, nseeds=6 if quick else 40, cap=cap or (120 if quick else 3000))
    return vals, st['tried']


def acc(o):
    return o[0] == 'ok'


def work(item):
    kind, key, tier = item
    res = Result()
    quick = tier != 'thorough'
    n = nt = tr = 0

    def viol(clause, rel, x, obs, dev=''):
        res.viol(ID, clause, 'stdnum.' + rel, 'validate', {'kind': kind, 'key': key, 'clause': clause, 'input': x}, obs,
                 'agreement with constituents', excinfo=key, devclass=dev, rank=[0, len(x), x])

    if kind in ('eu', 'eu-cross'):
        euvat = mod('eu.vat')
        vatin = mod('vatin')

        def check_eu(x, cc, dev):
            """x starts (case-insensitively, after clean-up) with code cc."""
            cm = mod(EU[cc])
            w = outcome(euvat.validate, x)
            c = outcome(cm.validate, x)
            if acc(w) != acc(c):
                viol('dispatch-differs', 'eu.vat', x, 'eu.vat %s but %s %s for %r' % (w[:2], EU[cc], c[:2], x), dev)
            elif acc(w):
                r = w[1]
                if not (isinstance(r, str) and r.startswith(cc) and r in (c[1], cc + c[1])):
                    viol('dispatch-result', 'eu.vat', x, 'eu.vat.validate(%r) = %r, %s gives %r' % (x, r, EU[cc], c[1]), dev)
                v = outcome(vatin.validate, x)
                if not acc(v) or v[1] != r:
                    viol('vatin-differs', 'vatin', x, 'eu.vat.validate(%r) = %r but vatin gives %r' % (x, r, v[1:2]), dev)
            return 1 if (acc(w) or acc(c)) else 0

        if kind == 'eu':
            cc = key
            vals, t0 = valid_numbers(EU[cc], tier)
            tr += t0
            cm = mod(EU[cc])
            for v in vals:
                bare = v[2:] if v.upper().startswith(cc) else v
                cands = [(v, 'valid')] + [(x, 'edit') for x in neighbours(bare)[:80 if quick else 100000]]
                for b, dev in cands:
                    b2 = b[2:] if b.upper().startswith(cc) and dev == 'valid' else b
                    for x, sp in ((cc + b2, 'CC'), (cc.lower() + b2, 'cc'), (cc + ' ' + b2, 'CC-space'), (cc + cc + b2, 'CCCC'),
                                  (cc + b2.lower(), 'CC-lower')):
                        n += 1
                        nt += check_eu(x, cc, dev + ':' + sp)
                # guess_country on the bare and prefixed valid number, and with the first two characters replaced by
                # each EU code (numbers of one state that happen to start with another state's code)
                gx = [v, bare] + [c2 + bare[2:] for c2 in sorted(EU)] + [c2.lower() + bare[2:] for c2 in ('BE', 'EL', 'XI')]
                for x in dict.fromkeys(gx):
                    n += 1
                    g = outcome(euvat.guess_country, x)
                    exp = sorted(GUESS_CODE.get(c2, c2.lower()) for c2 in EU if acc(outcome(mod(EU[c2]).validate, x)))
                    if x not in (v, bare) and not exp:
                        continue
                    if not acc(g) or sorted(g[1]) != exp:
                        viol('guess-country', 'eu.vat', x, 'guess_country(%r) = %r, constituents that accept: %r' % (x, g[1:2], exp), 'guess')
            # non-member prefixes must not be dispatched
            for pre in ('GB', 'CH', 'NO', 'US', 'XX', 'UK'):  # GR is the member state's own code (EL is its alias)
                for v in vals[:3]:
                    x = pre + (v[2:] if v.upper().startswith(cc) else v)
                    n += 1
                    w = outcome(euvat.validate, x)
                    if acc(w):
                        viol('non-member-accepted', 'eu.vat', x, 'eu.vat.validate(%r) = %r' % (x, w[1]), 'prefix:' + pre)
        else:
            # every valid number under the prefix of every other code (29 x 29)
            for cc in sorted(EU):
                vals, t0 = valid_numbers(EU[cc], 'quick', cap=6 if quick else 40)
                tr += t0
                for v in vals[:6 if quick else 40]:
                    bare = v[2:] if v.upper().startswith(cc) else v
                    for other in sorted(EU):
                        x = other + bare
                        n += 1
                        nt += check_eu(x, other, 'cross')
    elif kind == 'oss':
        # the one-stop-shop numbers (prefixes EU and IM): eu.vat hands them to eu.oss, and vatin accepts what eu.vat accepts
        euvat, vatin, oss = mod('eu.vat'), mod('vatin'), mod('eu.oss')
        vals, t0 = valid_numbers('eu.oss', tier, cap=200 if quick else 3000)
        tr += t0
        for v in vals:
            for x, dev in [(v, 'valid'), (v.lower(), 'lower'), (v[:2] + ' ' + v[2:], 'space')] + [(y, 'edit') for y in neighbours(v)[:120 if quick else 100000]]:
                n += 1
                c = outcome(oss.validate, x)
                w = outcome(euvat.validate, x)
                if x[:2].upper() in ('EU', 'IM') and acc(w) != acc(c):
                    viol('dispatch-differs', 'eu.vat', x, 'eu.vat %s but eu.oss %s for %r' % (w[:2], c[:2], x), dev)
                if acc(w):
                    nt += 1
                    o = outcome(vatin.validate, x)
                    if not acc(o) or o[1] != w[1]:
                        viol('vatin-differs', 'vatin', x, 'eu.vat.validate(%r) = %r but vatin gives %r' % (x, w[1], o[1:2]), dev + ':' + x[:2].upper())
    elif kind == 'union':
        w = mod(key)
        parts = UNIONS[key]
        inputs = {}
        for nm, cn in parts:
            vals, t0 = valid_numbers(cn, tier)
            tr += t0
            for v in vals:
                inputs.setdefault(v, 'valid')
                for x in neighbours(v)[:60 if quick else 100000]:
                    inputs.setdefault(x, 'edit')
                for x in (v.replace('-', ''), v[:3] + '-' + v[3:], ' ' + v, v.lower()):
                    inputs.setdefault(x, 'spelling')
        # what the wrapper itself accepts (E2 over the wrapper: numbers that no constituent may know about)
        wvals, t0 = valid_numbers(key, tier)
        tr += t0
        for v in wvals:
            inputs.setdefault(v, 'wrapper-valid')
            for x in neighbours(v)[:30 if quick else 100000]:
                inputs.setdefault(x, 'wrapper-edit')
        for ln in range(0, 4):
            for x in core.__dict__.get('_short', None) or _short('0123456789-', ln):
                inputs.setdefault(x, 'short')
        gfn, gkind = GUESSERS[key]
        for x, dev in inputs.items():
            n += 1
            wo = outcome(w.validate, x)
            cos = [(nm, outcome(mod(cn).validate, x)) for nm, cn in parts]
            anyc = [nm for nm, o in cos if acc(o)]
            if acc(wo) != bool(anyc):
                viol('union-differs', key, x, '%s %s but constituents accepting %r: %r' % (key, wo[:2], x, anyc), dev)
            elif acc(wo):
                nt += 1
                if wo[1] not in [o[1] for nm, o in cos if acc(o)]:
                    viol('union-result', key, x, '%s.validate(%r) = %r is no constituent result' % (key, x, wo[1]), dev)
            g = outcome(getattr(w, gfn), x)
            isv = [nm for nm, cn in parts if outcome(mod(cn).is_valid, x) == ('ok', True)]
            if gkind == 'list':
                okg = acc(g) and list(g[1]) == isv
            else:
                # first accepting constituent in the order the wrapper documents; be.ssn tries bis then nn
                okg = acc(g) and ((g[1] in isv) if isv else g[1] is None)
            if not okg:
                viol('guess-type', key, x, '%s(%r) = %r but accepting constituents are %r' % (gfn, x, g[1:2], isv), dev)
    elif kind == 'superset':
        w = mod(key)
        for cn in SUPERSETS[key]:
            vals, t0 = valid_numbers(cn, tier, cap=400 if quick else 5000)
            tr += t0
            for v in vals:
                for x, dev in ((v, 'valid'), ('ES' + v, 'ES'), (v[:1] + '-' + v[1:], 'hyphen'), (v.lower(), 'lower')):
                    co = outcome(mod(cn).validate, x if dev != 'ES' else v)
                    if not acc(co):
                        continue
                    n += 1
                    nt += 1
                    wo = outcome(w.validate, x)
                    if not acc(wo) or wo[1] != co[1]:
                        viol('superset-rejects', key, x, '%s accepts %r (%r) but %s gives %r' % (cn, x, co[1], key, wo[1:2]), cn + ':' + dev)
    elif kind == 'delegate':
        w = mod(key)
        for cn, proj, exact in DELEGATES[key]:
            cm = mod(cn)
            vals, t0 = valid_numbers(cn, tier, cap=400 if quick else 5000)
            tr += t0
            # numbers the wrapper accepts are inputs too (the exact direction needs them)
            wvals, t1 = valid_numbers(key, tier, cap=200 if quick else 3000)
            tr += t1
            seen = set()
            for v in list(vals) + list(wvals):
                for x, dev in [(v, 'valid')] + [(y, 'edit') for y in neighbours(v)[:160 if quick else 100000]]:
                    if x in seen:
                        continue
                    seen.add(x)
                    p_ = proj(x)
                    if p_ is None:
                        continue
                    co = outcome(cm.validate, p_)
                    # the wrapper is asked with the number as is and, for VAT modules, under its country prefix
                    for pre in ('',) + DELEGATE_PREFIX.get(key, ()):
                        n += 1
                        wo = outcome(w.validate, pre + x)
                        if acc(co):
                            nt += 1
                            if not acc(wo) or wo[1] not in (co[1], pre.upper() + co[1]):
                                viol('superset-rejects', key, pre + x, '%s accepts %r (%r) but %s gives %r for %r' % (
                                    cn, p_, co[1], key, wo[1:3], pre + x), cn + ':' + dev + (':' + pre if pre else ''))
                        elif exact and acc(wo):
                            viol('wrapper-accepts-more', key, pre + x, '%s accepts %r (%r) but %s gives %r' % (
                                key, pre + x, wo[1], cn, co[1:3]), cn + ':' + dev + (':' + pre if pre else ''))
    elif kind == 'iban':
        iban = mod('iban')
        if key == 'generic':
            srcs = [('iban', None)]
        else:
            srcs = [(key + '.iban', mod(key + '.iban'))]
        for sname, nat in srcs:
            vals, t0 = valid_numbers(sname, tier, cap=200 if quick else 5000)
            tr += t0
            for v in vals:
                cands = [(v, 'valid')] + [(x, 'edit') for x in neighbours(v)[:120 if quick else 100000]]
                cands += [(' '.join(v[i:i + 4] for i in range(0, len(v), 4)), 'spaces'), (v.lower(), 'lower')]
                # the BBAN changed and the IBAN check digits recomputed: valid by the generic rules, usually not by the
                # national ones
                from ..refs import standards
                for i in range(4, len(v)):
                    if v[i].isdigit():
                        b = v[4:i] + str((int(v[i]) + 1 + i % 3) % 10) + v[i + 1:]
                        cd = 98 - standards.mod97(b + v[:2] + '00')
                        cands.append((v[:2] + '%02d' % cd + b, 'recomputed'))
                for x, dev in cands:
                    n += 1
                    full = outcome(iban.validate, x)
                    gen = outcome(iban.validate, x, check_country=False)
                    cc = x.strip()[:2].lower()
                    natm = mod(cc + '.iban') if cc in NATIONAL_IBAN else None
                    nato = outcome(natm.validate, x) if natm else ('ok', None)
                    exp = acc(gen) and acc(nato)
                    if acc(full) != exp:
                        viol('iban-differs', 'iban', x, 'iban %s, generic %s, national(%s) %s for %r' % (full[:2], gen[:2], cc, nato[:2], x), dev)
                    elif acc(full):
                        nt += 1
                        if full[1] != gen[1]:
                            viol('iban-result', 'iban', x, 'iban.validate(%r) = %r but generic gives %r' % (x, full[1], gen[1]), dev)
    elif kind == 'wrap':
        wname = key
        wrapped, proj, spell = WRAPS[key]
        w = mod(wname)
        wm = mod(wrapped)
        vals, t0 = valid_numbers(wname, tier)
        tr += t0
        for v in vals:
            for x, dev in [(v, 'valid')] + [(y, 'edit') for y in neighbours(v)[:80 if quick else 100000]]:
                n += 1
                wo = outcome(w.validate, x)
                if acc(wo):
                    nt += 1
                    po = outcome(wm.validate, proj(wo[1]))
                    if not acc(po):
                        viol('wrapped-rejects', wname, x, '%s accepts %r as %r but %s rejects %r' % (wname, x, wo[1], wrapped, proj(wo[1])), dev)
                    elif wname in WRAP_REST and not WRAP_REST[wname](wo[1], po[1]):
                        # nothing but the wrapped number and the documented decoration is part of an accepted number
                        viol('wrapper-accepts-more', wname, x, '%s accepts %r as %r: more than the %s number %r and its documented suffix' % (
                            wname, x, wo[1], wrapped, po[1]), dev)
        vals2, t0 = valid_numbers(wrapped, tier)
        tr += t0
        for v in vals2:
            for x in spell(v):
                n += 1
                nt += 1
                wo = outcome(w.validate, x)
                if not acc(wo):
                    viol('wrapper-rejects', wname, x, '%s is valid for %s but %s rejects %r' % (v, wrapped, wname, x), 'spelled')
    res['states'] = n
    res['transitions'] = n + tr
    res['evaluations'] = n
    res['impl_execs'] = n * 3 + tr
    res['nontrivial'] = nt
    res['extra']['relations'] = {'%s:%s' % (kind, key): n}
    res['samples'].append({'relation': '%s:%s' % (kind, key), 'inputs': n})
    return res


def _short(alpha, ln):
    import itertools
    return [''.join(t) for t in itertools.product(alpha, repeat=ln)]


def replay(case):
    r = work((case['kind'], case['key'], 'quick'))
    return [v for v in r['violations'] if v['case']['clause'] == case['clause'] and v['case']['input'] == case['input']] or \
        [v for v in r['violations'] if v['case']['clause'] == case['clause']][:1]
