"""Engine E4: history explorer and cooperative thread scheduler (DESIGN.md §1.5)."""
import sys
import queue
import datetime
import importlib
import threading


# ------------------------------------------------------------------------------------------- fresh state

def purge():
    """Forget every stdnum module: the next import re-executes the module code (fresh caches, registries)."""
    for k in [k for k in sys.modules if k == 'stdnum' or k.startswith('stdnum.')]:
        del sys.modules[k]


def canon(x, depth=0):
    """Canonical, comparable description of a returned value."""
    if isinstance(x, dict):
        return ('dict', tuple(sorted((repr(k), canon(v, depth + 1)) for k, v in x.items())))
    if isinstance(x, (list, tuple)):
        return (type(x).__name__, tuple(canon(v, depth + 1) for v in x))
    if isinstance(x, (set, frozenset)):
        return ('set', tuple(sorted(repr(canon(v, depth + 1)) for v in x)))
    if isinstance(x, (datetime.date, datetime.datetime)):
        return ('date', x.isoformat())
    if type(x).__name__ == 'module':
        return ('module', x.__name__)
    if type(x).__name__ == 'NumDB':
        return ('numdb', len(x.prefixes))
    return (type(x).__name__, repr(x))


def call(event):
    """event = (module, function, args tuple, kwargs tuple) -> (observation, raw result)."""
    modname, fn, args, kwargs = event
    try:
        m = importlib.import_module(modname)
        f = getattr(m, fn)
        r = f(*args, **dict(kwargs))
        return ('ok', canon(r)), r
    except KeyboardInterrupt:
        raise
    except BaseException as e:  # noqa: B902
        from_lib = type(e).__module__.startswith('stdnum')
        return ('raise', type(e).__name__ if from_lib else '%s!' % type(e).__name__), None


def mutate(obj, depth=0):
    """In-place mutation of a returned container: overwrite values, add junk, then empty it."""
    if depth > 4:
        return
    if isinstance(obj, dict):
        for k, v in list(obj.items()):
            mutate(v, depth + 1)
            try:
                obj[k] = 'JUNK'
            except Exception:
                pass
        try:
            obj['__junk__'] = 1
            obj.clear()
            obj['__junk__'] = 1
        except Exception:
            pass
    elif isinstance(obj, list):
        for v in obj:
            mutate(v, depth + 1)
        try:
            obj.append('JUNK')
            obj.reverse()
            del obj[:]
            obj.append('JUNK')
        except Exception:
            pass
    elif isinstance(obj, set):
        obj.clear()
        obj.add('JUNK')
    elif isinstance(obj, tuple):
        for v in obj:
            mutate(v, depth + 1)


def run_history(history, clock=None):
    """Execute a history on a fresh library state.  history items: ('call', event) | ('mutate',) | ('clock', date).
    Returns list of observations (one per call)."""
    from . import clock as clk
    purge()
    last = None
    obs = []
    clk.set_today(clock)
    # the clock answer is in force process-wide for the whole history: imports (module-level clock reads, lazily
    # imported modules) see it as well
    with clk.process_wide():
        for step in history:
            if step[0] == 'call':
                try:
                    importlib.import_module(step[1][0])     # so that the clock seam can be installed before the call
                except Exception:
                    pass
                clk.install()
                o, last = call(step[1])
                obs.append(o)
            elif step[0] == 'mutate':
                if last is not None:
                    mutate(last)
            elif step[0] == 'clock':
                clk.set_today(step[1])
    clk.set_today(None)
    return obs


def state_digest():
    """Canonical form of the process-wide library state: every mutable module-level container of every loaded
    stdnum module (caches, registries), by content."""
    import hashlib
    parts = []
    for name in sorted(k for k in sys.modules if k == 'stdnum' or k.startswith('stdnum.')):
        m = sys.modules[name]
        if m is None:
            continue
        for attr, val in sorted(vars(m).items()):
            if attr.startswith('__'):
                continue
            if isinstance(val, (dict, list, set)):
                parts.append((name, attr, repr(canon(val))[:100000]))
            elif type(val).__name__ == 'NumDB':
                parts.append((name, attr, repr(val.prefixes)[:2000000]))
    return hashlib.sha256(repr(parts).encode('utf-8', 'replace')).hexdigest()[:16]


# ------------------------------------------------------------------------------------------- scheduler

class Scheduler:
    """Threads stop at every line event inside watched code (functions by code object, and the top-level code of
    stdnum modules while they are being imported); a choice list decides who runs next.  A released thread that does
    not reach its next point within `block_timeout` is treated as blocked (e.g. on the import lock) and another
    thread is scheduled meanwhile."""

    def __init__(self, watched, choices, block_timeout=0.05, horizon=4000, watch_module_code=True, opcodes=False):
        self.opcodes = opcodes      # scheduling points at every bytecode instruction of watched code (races inside one line)
        self.watched = watched
        self.choices = list(choices)
        self.block_timeout = block_timeout
        self.horizon = horizon
        self.watch_module_code = watch_module_code
        self.q = queue.Queue()
        self.sems = {}
        self.points = []        # (number of options, running thread still enabled)
        self.taken = []
        self.trace = []
        self.blocked_seen = 0
        self.free = False       # set on abort: threads stop parking and run to completion
        self.threads = []

    def _tracer(self, tid):
        want = 'opcode' if self.opcodes else 'line'

        def local(frame, event, arg):
            if event == want and not self.free:
                self.q.put((tid, 'point', (frame.f_code.co_name, frame.f_lineno)))
                self.sems[tid].acquire()
            return local

        def glob(frame, event, arg):
            code = frame.f_code
            if code in self.watched:
                if self.opcodes:
                    frame.f_trace_opcodes = True
                return local
            if self.watch_module_code and code.co_name == '<module>' and '/stdnum/' in code.co_filename.replace('\\', '/'):
                return local
            return None
        return glob

    def abort(self):
        """Let every thread of this execution run to completion (never leave a thread parked: it may hold an
        import lock that later executions need)."""
        self.free = True
        for sem in self.sems.values():
            for _ in range(3):
                sem.release()
        for t in self.threads:
            t.join(30)

    def run(self, bodies):
        try:
            return self._run(bodies)
        except BaseException:
            self.abort()
            raise

    def _run(self, bodies):
        results = {}

        def wrap(tid, body):
            self.sems[tid].acquire()
            sys.settrace(self._tracer(tid))
            try:
                results[tid] = body()
            except BaseException as e:  # noqa: B902
                results[tid] = ('raise', type(e).__name__ if type(e).__module__.startswith('stdnum') else '%s!' % type(e).__name__)
            finally:
                sys.settrace(None)
                self.q.put((tid, 'done', None))
        threads = []
        for tid, b in enumerate(bodies):
            self.sems[tid] = threading.Semaphore(0)
            t = threading.Thread(target=wrap, args=(tid, b), daemon=True)
            t.start()
            threads.append(t)
            self.threads.append(t)
        n = len(bodies)
        parked = set(range(n))      # waiting for the baton (initially: not started)
        running = set()             # released, not yet reported back
        blocked = set()             # released, did not come back within block_timeout (waiting for a lock)
        done = set()
        cur = 0
        steps = 0
        while len(done) < n:
            steps += 1
            if steps > self.horizon:
                raise RuntimeError('scheduler horizon exceeded (livelock?)')
            if not running:
                enabled = sorted(parked)
                if enabled:
                    order = ([cur] if cur in enabled else []) + [t for t in enabled if t != cur]
                    i = len(self.taken)
                    c = self.choices[i] if i < len(self.choices) else 0
                    if c >= len(order):
                        raise RuntimeError('replayed schedule diverged: choice %d of %d options at point %d' % (c, len(order), i))
                    self.points.append((len(order), cur in enabled))
                    self.taken.append(c)
                    nxt = order[c]
                    self.trace.append(nxt)
                    cur = nxt
                    parked.discard(nxt)
                    running.add(nxt)
                    self.sems[nxt].release()
                elif not blocked:
                    raise RuntimeError('deadlock: no enabled thread')
            try:
                tid, kind, info = self.q.get(timeout=self.block_timeout if (parked and running) else 10.0)
            except queue.Empty:
                if parked and running:
                    self.blocked_seen += 1
                    blocked |= running          # the released thread is waiting for a lock: let another one go
                    running.clear()
                    continue
                raise RuntimeError('deadlock: threads %r never reached a scheduling point' % sorted(running | blocked))
            running.discard(tid)
            blocked.discard(tid)
            if kind == 'point':
                parked.add(tid)
            else:
                done.add(tid)
        for t in threads:
            t.join(2)
        return results



def prime_opcodes(watched, fn):
    """Run fn() with per-instruction tracing switched on for the watched code objects.  CPython 3.12 instruments a
    code object for 'opcode' events when the flag is first set on one of its frames, and that first frame itself
    then misses the events: priming in the main thread makes the explored threads see every instruction."""
    def local(frame, event, arg):
        return local

    def glob(frame, event, arg):
        if frame.f_code in watched:
            frame.f_trace_opcodes = True
            return local
        return None
    old = sys.gettrace()
    sys.settrace(glob)
    try:
        return fn()
    finally:
        sys.settrace(old)


def explore_schedules(make_bodies, watched, bound, reset, check, max_execs=20000, watch_module_code=True, horizon=4000,
                      earliest_first=False, stride=1, opcodes=False):
    """CHESS-style exploration: run the default schedule, then every alternative choice at every point whose
    preemption count stays within `bound`.  Returns (executions, distinct outcome count, capped?)."""
    n = 0
    outcomes = {}
    stack = [[]]
    capped = False
    while stack:
        prefix = stack.pop()
        if n >= max_execs:
            capped = True
            break
        reset()
        s = Scheduler(watched, prefix, watch_module_code=watch_module_code, horizon=horizon, opcodes=opcodes)
        res = None
        for attempt in range(3):
            try:
                res = s.run(make_bodies())
                break
            except RuntimeError as e:
                if 'diverged' in str(e):
                    # a prefix recorded under a different blocking pattern: not replayable, counted, never a verdict
                    outcomes['<diverged>'] = outcomes.get('<diverged>', 0) + 1
                    break
                # deadlock / horizon reported by the scheduler itself: retry on a fresh state; a persistent one is
                # reported to the caller through check() as a scheduler anomaly (never silently dropped)
                last_error = str(e)
                reset()
                s = Scheduler(watched, prefix, watch_module_code=watch_module_code, horizon=horizon, opcodes=opcodes)
        else:
            outcomes['<anomaly> ' + last_error[:60]] = outcomes.get('<anomaly> ' + last_error[:60], 0) + 1
            res = None
        if res is None:
            continue
        n += 1
        key = check(res, list(s.taken), s)
        outcomes[key] = outcomes.get(key, 0) + 1
        pre = 0
        new = []
        for i, (nopt, cur_enabled) in enumerate(s.points):
            c = s.taken[i]
            if i >= len(prefix) and (stride == 1 or i % stride == 0 or i < 40):
                for alt in range(1, nopt):
                    cost = pre + (1 if cur_enabled else 0)
                    if cost <= bound:
                        new.append(s.taken[:i] + [alt])
            if c != 0 and cur_enabled:
                pre += 1
        # the stack is popped from the end: with earliest_first the alternatives that deviate earliest run first
        stack.extend(reversed(new) if earliest_first else new)
    return n, outcomes, capped
