"""Engine E2: valid-set explorer (DESIGN.md §1.3).

Explicit-state search in the graph whose nodes are canonical strings accepted by a module and
whose edges are same-class single-character substitutions, followed - when the substitution is
rejected - by one repairing substitution at a check position.  Nodes are deduplicated by value."""
D = '0123456789'
U = 'ABCDEFGHIJKLMNOPQRSTUVWXYZ'
L = 'abcdefghijklmnopqrstuvwxyz'


def same_class(ch):
    if ch in D:
        return D
    if ch in U:
        return U
    if ch in L:
        return L
    return ''


_extra_cache = {}


def extra_chars(m):
    """Punctuation characters that occur in short string constants of the module's own functions (alphabets such
    as 'ABC...Z+*' or '0123456789X*@#'): candidates for substitution besides the same-class characters.  Only
    enlarges the explored space."""
    if m in _extra_cache:
        return _extra_cache[m]
    import types
    out = set()

    def consts(code, depth=0):
        for c in code.co_consts:
            if isinstance(c, str) and 2 <= len(c) <= 64 and ' ' not in c and sum(ch.isalnum() for ch in c) >= 2:
                out.update(ch for ch in c if not ch.isalnum() and ch.isascii() and ch.isprintable())
            elif isinstance(c, types.CodeType) and depth < 3:
                consts(c, depth + 1)
    for k, v in vars(m).items():
        if isinstance(v, types.FunctionType) and v.__module__ == m.__name__:
            consts(v.__code__)
            for d in (v.__defaults__ or ()):
                if isinstance(d, str) and 2 <= len(d) <= 64:
                    out.update(ch for ch in d if not ch.isalnum() and ch.isascii() and ch.isprintable() and ch != ' ')
        elif isinstance(v, str) and 2 <= len(v) <= 64 and ' ' not in v and sum(ch.isalnum() for ch in v) >= 2:
            out.update(ch for ch in v if not ch.isalnum() and ch.isascii() and ch.isprintable())
    out -= set('^$[]{}()|\\?.%')        # regular expression and format syntax
    _extra_cache[m] = ''.join(sorted(out))[:8]
    return _extra_cache[m]


_slow_cache = {}


def is_slow(m, v, kw=None):
    """Deterministic cost class of one validate() call: more than 10,000 traced line events (a linear scan of a large
    registry; ~0.5 ms).  Counted, not timed, so that the explored space does not depend on the load of the machine."""
    import sys
    key = (m.__name__, tuple(sorted((kw or {}).keys())))
    if key not in _slow_cache:
        c = [0]

        def tr(frame, ev, arg):
            c[0] += 1
            return tr if c[0] <= 10000 else None
        old = sys.gettrace()
        sys.settrace(tr)
        try:
            _accepts(m, v, kw or {})
        finally:
            sys.settrace(old)
        _slow_cache[key] = c[0] > 10000
    return _slow_cache[key]


# inputs on which validate() raised something that is not a ValidationError while E2 was searching (the candidates
# with a repaired check character reach code behind the checksum gate): module name -> {(exception, site): (input, kw)}.
# C01 evaluates them as states of their own.
crash_log = {}


def _accepts(m, t, kw):
    try:
        return m.validate(t, **kw) == t
    except Exception as e:  # noqa: B902
        if not _is_verr(e):
            from .core import exc_site
            d = crash_log.setdefault(m.__name__, {})
            k = (type(e).__name__, exc_site(e))
            if k not in d or len(t) < len(d[k][0]):
                d[k] = (t, dict(kw))
        return False


_verr = []


def _is_verr(e):
    if not _verr:
        from stdnum.exceptions import ValidationError
        _verr.append(ValidationError)
    return isinstance(e, _verr[0])


def default_check_positions(v):
    n = len(v)
    pos = [(n - 1,), (n - 2,), (n - 2, n - 1), (0,), (1,)]
    if n > 4:
        pos.append((2, 3))
    return [p for p in pos if all(0 <= i < n for i in p)]


def expand(m, v, check_positions=None, kw=None, stats=None, repair=True):
    """All valid neighbours of canonical valid v (one same-class substitution + optional repair)."""
    kw = kw or {}
    out = set()
    cps = check_positions(v) if check_positions else default_check_positions(v)
    if not check_positions:
        try:
            from . import synth
            for ps in synth.table_check_positions(m.__name__, m, v):
                if ps not in cps:
                    cps = [ps] + cps
        except Exception:
            pass
    tried = 0
    xc = extra_chars(m)
    for i, ch in enumerate(v):
        for c in (same_class(ch) + xc if same_class(ch) else ''):
            if c == ch:
                continue
            t = v[:i] + c + v[i + 1:]
            tried += 1
            if _accepts(m, t, kw):
                out.add(t)
                continue
            if not repair:
                continue
            for ps in cps:
                if i in ps:
                    continue
                if len(ps) == 1:
                    p = ps[0]
                    alpha = D + 'XK' + (same_class(t[p]) if t[p] not in D + 'XK' else '')
                    for r in dict.fromkeys(alpha):
                        if r != t[p]:
                            u = t[:p] + r + t[p + 1:]
                            tried += 1
                            if _accepts(m, u, kw):
                                out.add(u)
                else:
                    p, q = ps
                    if t[p] in D and t[q] in D:
                        for r in range(100):
                            u = t[:p] + D[r // 10] + t[p + 1:q] + D[r % 10] + t[q + 1:]
                            if u != t:
                                tried += 1
                                if _accepts(m, u, kw):
                                    out.add(u)
    if stats is not None:
        stats['tried'] = stats.get('tried', 0) + tried
    return out


def valid_set(name, m, tier, nseeds=None, check_positions=None, kw=None, cap=None, depth=None, extra_seeds=()):
    """Returns (sorted list of distinct canonical valid numbers, stats)."""
    from . import seeds as seedmod
    quick = tier != 'thorough'
    if nseeds is None:
        nseeds = 8 if quick else 40
    if depth is None:
        depth = 1
    if cap is None:
        cap = 4000 if quick else 40000
    sv = seedmod.seeds(name, nseeds)
    kw = kw or {}
    nodes = {}
    for s, v in sv:
        if kw:
            # canonical form under these options (e.g. MEID keeps its check digit with strip_check_digit=False)
            try:
                cv = m.validate(s, **kw)
                if isinstance(cv, str) and _accepts(m, cv, kw):
                    nodes[cv] = 0
                    continue
            except Exception:
                pass
        if _accepts(m, v, kw):
            nodes[v] = 0
    if kw:
        # seeds that are not valid under these options (custom alphabet / table): repair their check position
        from . import synth
        for s, v in sv:
            if v not in nodes:
                for u in synth._repair(m, v, kw):
                    nodes[u] = 0
    if not kw:
        # valid numbers of other lengths than the documented examples are start nodes too
        try:
            from . import synth
            for u in synth.length_variants(name, m, sv, limit=12):
                nodes.setdefault(u, 0)
            for u in synth.literal_variants(name, m, sv, limit=12):
                nodes.setdefault(u, 0)
            for u in synth.table_range_variants(name, m, sv, limit=48):
                nodes.setdefault(u, 0)
        except Exception:
            pass
    for u in extra_seeds:
        if _accepts(m, u, kw):
            nodes.setdefault(u, 0)
    stats = {'seeds': len(nodes), 'edges': 0, 'tried': 0}
    frontier = list(nodes)
    # slow validators (registry lookups of ~4 ms): bound the number of expanded nodes, and say so
    budget = None
    if frontier:
        if is_slow(m, frontier[0], kw):
            budget = 6 if depth == 1 and cap <= 5000 else 40
            stats['slow_validator_nodes_expanded_max'] = budget
    for d in range(1, depth + 1):
        nxt = []
        for v in frontier:
            if len(nodes) >= cap:
                stats['cap_hit'] = cap
                break
            if budget is not None:
                if budget <= 0:
                    break
                budget -= 1
            nb = expand(m, v, check_positions, kw, stats, repair=budget is None)
            stats['edges'] += len(nb)
            for t in sorted(nb):
                if t not in nodes:
                    nodes[t] = d
                    nxt.append(t)
        frontier = nxt
    values = sorted(nodes)
    stats['reached'] = len(values)
    if len(values) > cap:
        values = select_diverse(values, cap, [v for v in nodes if nodes[v] == 0])
    return values, stats


def select_diverse(values, cap, keep=()):
    """Deterministic subset of at most cap values: the seeds, then greedily every value that adds a new
    (position, character) or (length, last character) pair, then evenly spaced fill."""
    chosen = list(dict.fromkeys(keep))[:cap]
    have = {(i, c) for v in chosen for i, c in enumerate(v)}
    cs = set(chosen)
    for v in values:
        if len(chosen) >= cap:
            break
        if v in cs:
            continue
        pairs = {(i, c) for i, c in enumerate(v)} | {('len', len(v), v[-1:])}
        if not pairs <= have:
            have |= pairs
            chosen.append(v)
            cs.add(v)
    if len(chosen) < cap:
        rest = [v for v in values if v not in cs]
        step = max(1, len(rest) // (cap - len(chosen)))
        chosen.extend(rest[::step][:cap - len(chosen)])
    return sorted(chosen)


def coverage_matrix(values):
    """Number of distinct (position, character) pairs covered."""
    return len({(i, c) for v in values for i, c in enumerate(v)})
