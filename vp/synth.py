"""Synthesised initial states: (a) valid numbers carrying special calendar dates, (b) inputs built around
every registry entry a module consults.  Both only *add* start states to the explorers."""
import sys
import datetime

from . import e2

D = '0123456789'

# raw digit positions (yy, mm, dd) in the canonical number, by module; None = use generic search
DATE_POS = {
    'stdnum.be.nn': (0, 2, 4), 'stdnum.be.bis': (0, 2, 4), 'stdnum.be.ssn': (0, 2, 4),
    'stdnum.bg.egn': (0, 2, 4), 'stdnum.cn.ric': (8, 10, 12), 'stdnum.cu.ni': (0, 2, 4),
    'stdnum.cz.rc': (0, 2, 4), 'stdnum.sk.rc': (0, 2, 4), 'stdnum.dk.cpr': (4, 2, 0), 'stdnum.ee.ik': (1, 3, 5),
    'stdnum.lt.asmens': (1, 3, 5), 'stdnum.gr.amka': (4, 2, 0), 'stdnum.id.nik': (10, 8, 6),
    'stdnum.kr.rrn': (0, 2, 4), 'stdnum.lv.pvn': (4, 2, 0), 'stdnum.mx.curp': (4, 6, 8), 'stdnum.mx.rfc': None,
    'stdnum.my.nric': (0, 2, 4), 'stdnum.no.fodselsnummer': (4, 2, 0), 'stdnum.pl.pesel': (0, 2, 4),
    'stdnum.ro.cnp': (1, 3, 5), 'stdnum.se.personnummer': 'se', 'stdnum.si.emso': (5, 2, 0),
    'stdnum.za.idnr': (0, 2, 4), 'stdnum.is_.kennitala': (4, 2, 0), 'stdnum.fi.hetu': (4, 2, 0),
    'stdnum.fr.nir': (1, 3, None), 'stdnum.it.codicefiscale': None, 'stdnum.ua.rntrc': None,
}


def special_dates(today=None):
    t = today or datetime.date.today()
    yy = t.year % 100
    out = [(0, 2, 29), (0, 2, 28), (0, 3, 1), (4, 2, 29), (96, 2, 29), (99, 12, 31), (0, 1, 1), (1, 2, 28),
           (69, 12, 31), (70, 1, 1), (yy, 1, 1), (yy, t.month, t.day), ((yy + 1) % 100, 1, 1), ((yy - 1) % 100, 12, 31),
           (yy, 12, 31), (38, 1, 19), (50, 6, 15)]
    return list(dict.fromkeys(out))


def _set(v, pos, val):
    return v[:pos] + '%02d' % val + v[pos + 2:]


def table_check_positions(name, m, t):
    """Check positions according to the C05 shape table (where the module has a generator row)."""
    try:
        from .tables import c05_shapes
        out = []
        for gname, shape, opts in c05_shapes.rows(name, m):
            sh = shape(t)
            if sh:
                ps = tuple(p % len(t) for p in sh[1])
                if len(ps) <= 2 and ps not in out:
                    out.append(ps)
        return out
    except Exception:
        return []


def _repair(m, t, kw=None, extra_positions=()):
    """t itself if accepted, else single repairs at the usual check positions."""
    kw = kw or {}
    out = []
    if e2._accepts(m, t, kw):
        return [t]
    for ps in list(extra_positions) + e2.default_check_positions(t):
        if len(ps) == 1:
            p = ps[0]
            for r in D + 'XK' + (e2.same_class(t[p]) if t[p] not in D + 'XK' else ''):
                u = t[:p] + r + t[p + 1:]
                if u != t and e2._accepts(m, u, kw):
                    out.append(u)
                    break
        else:
            p, q = ps
            if t[p] in D and t[q] in D:
                for r in range(100):
                    u = t[:p] + D[r // 10] + t[p + 1:q] + D[r % 10] + t[q + 1:]
                    if e2._accepts(m, u, kw):
                        out.append(u)
                        break
        if out:
            break
    return out


def date_numbers(name, m, sv, limit=None, today=None, raw=False):
    """Valid canonical numbers carrying each special date (where one can be built within one repair).
    raw=True: also the unrepaired candidates with every digit at the last position (valid or not)."""
    pos = DATE_POS.get(name)
    if pos is None:
        return []
    out = []
    for s, v in sv[:3]:
        if pos == 'se':
            base = len(v) - 11
            if base < 0 or not v[base:base + 6].isdigit():
                continue
            p = (base, base + 2, base + 4)
        else:
            p = pos
        try:
            raw = [int(v[p[0]:p[0] + 2]), int(v[p[1]:p[1] + 2]), int(v[p[2]:p[2] + 2]) if p[2] is not None else None]
        except ValueError:
            continue
        moff = raw[1] - ((raw[1] - 1) % 20 + 1) if raw[1] > 12 else 0      # documented month offsets are multiples of 20 (or 50)
        if raw[1] > 50:
            moff = raw[1] - ((raw[1] - 1) % 50 + 1)
            if (raw[1] - moff) > 12:
                moff += 20
        doff = 0
        if raw[2] is not None and raw[2] > 31:
            doff = 40 if raw[2] < 72 else 60
            if raw[2] - doff < 1:
                doff = raw[2] // 10 * 10
        for yy, mm, dd in special_dates(today):
            t = _set(v, p[0], yy)
            t = _set(t, p[1], mm + moff)
            if p[2] is not None:
                t = _set(t, p[2], dd + doff)
            variants = [t]
            if pos == 'se':
                sep = base + 6
                for ch in '+-':
                    if t[sep] in '+-' and t[sep] != ch:
                        variants.append(t[:sep] + ch + t[sep + 1:])
            if name == 'stdnum.fi.hetu':
                for ch in '+-A':
                    if len(t) > 6 and t[6] != ch:
                        variants.append(t[:6] + ch + t[7:])
            # the digit next to the date block often selects the century / sex: all ten values
            lo = min(x for x in p if x is not None)
            hi = max(x for x in p if x is not None) + 2
            for q in (lo - 1, hi):
                if 0 <= q < len(t) and t[q] in D:
                    for c in D:
                        if c != t[q]:
                            variants.append(t[:q] + c + t[q + 1:])
            for w in variants:
                if raw:
                    for c in D:
                        u = w[:-1] + c
                        if u not in out:
                            out.append(u)
                for u in _repair(m, w):
                    if u not in out:
                        out.append(u)
        if out:
            break
    return out[:limit] if limit else out


# ------------------------------------------------------------------------------------------ registries

class record_numdb:
    """Context manager recording the registry names looked up through stdnum.numdb.get()."""

    def __enter__(self):
        import stdnum.numdb as nd
        self.nd = nd
        self.orig = nd.get
        self.names = []

        def get(name):
            if name not in self.names:
                self.names.append(name)
            return self.orig(name)
        nd.get = get
        return self

    def __exit__(self, *a):
        self.nd.get = self.orig


def _paths(prefixes, depth=4, acc=''):
    for length, low, high, props, children in prefixes:
        for end in dict.fromkeys((low, high)):
            yield acc + end, props
            if children and depth > 1:
                for x in _paths(children, depth - 1, acc + end):
                    yield x


def registry_names(m, sv, funcs=('validate',)):
    with record_numdb() as r:
        for s, v in sv[:3]:
            for fn in funcs:
                f = getattr(m, fn, None)
                if f is None:
                    continue
                try:
                    f(v)
                except Exception:
                    pass
    # module-level handles (iban._ibandb, ...) opened at import time
    names = list(r.names)
    for k, val in vars(m).items():
        if type(val).__name__ == 'NumDB':
            names.append(val)
    return names


def registry_inputs(name, m, sv, limit=600, funcs=('validate',)):
    """Inputs built around the registry entries the module consults: path, path + tail of a seed,
    path + filler digits.  Deterministic stride sampling when there are more than `limit` paths."""
    import stdnum.numdb as nd
    out = []
    seeds = [v for s, v in sv[:2]]
    # separator pattern of the first canonical seed (e.g. 2c:76:8a:ad:f2:74)
    pattern = None
    if seeds and any(not c.isalnum() for c in seeds[0]):
        pattern = [(i, c) for i, c in enumerate(seeds[0]) if not c.isalnum()]
        plen = sum(c.isalnum() for c in seeds[0])
    if seeds:
        if e2.is_slow(m, seeds[0], {}):
            limit = min(limit, 40)      # slow validator (linear registry scan): fewer entries, stated in the evidence
    for dbn in registry_names(m, sv, funcs):
        try:
            db = nd.get(dbn) if isinstance(dbn, str) else dbn
        except Exception:
            continue
        paths = list(dict.fromkeys(p for p, _props in _paths(db.prefixes)))
        if len(paths) > limit:
            # every top-level entry with its first nested path is kept, the rest is sampled with a fixed stride
            top = []
            nested = 0
            for i_, (length, low, high, props, children) in enumerate(db.prefixes):
                if children and nested < 150:
                    nested += 1
                    top.append(low)
                    top.append(low + children[0][1])
                    top.append(low + children[-1][2])
                    if children[0][4]:
                        top.append(low + children[0][1] + children[0][4][0][1])
                elif i_ < 100:
                    top.append(low)
            step = len(paths) / float(limit)
            paths = list(dict.fromkeys(top + [paths[int(i * step)] for i in range(limit)]))
        for p in paths:
            cands = [p, p + '0', p + '000000', p + '123456', p + '0' * 14]
            for v in seeds:
                for off in (0, 2, 4):
                    if len(v) > off + len(p):
                        cands.append(v[:off] + p + v[off + len(p):])
                cands.append(p + v)
                # a valid number that starts with this registry path (check position repaired)
                if len(v) > len(p) and len(out) < 40000:
                    t = p + v[len(p):]
                    for u in _repair(m, t, None, table_check_positions(name, m, t))[:1]:
                        cands.append(u)
            if pattern:
                for c in list(cands):
                    a = ''.join(ch for ch in c if ch.isalnum())
                    a = (a + '0' * plen)[:plen]
                    for i, ch in pattern:
                        a = a[:i] + ch + a[i:]
                    cands.append(a)
            out.extend(cands)
    return list(dict.fromkeys(out))


def registry_siblings(name, m, sv, funcs=('validate',), parents=3):
    """Groups of inputs that fall in sibling entries of one registry (same parent prefix, first / last nested entry,
    and the parent range outside the nested entries): what a cache keyed by the parent prefix would confuse."""
    import stdnum.numdb as nd
    groups = []
    seeds = [v for s, v in sv[:1]]
    if not seeds:
        return groups
    v = seeds[0]
    pattern = [(i, c) for i, c in enumerate(v) if not c.isalnum()]
    va = ''.join(ch for ch in v if ch.isalnum())

    def shape(p):
        a = (p + va[len(p):]) if len(va) > len(p) else p
        for i, ch in pattern:
            a = a[:i] + ch + a[i:]
        if v.islower():
            a = a.lower()
        r = _repair(m, a, None, table_check_positions(name, m, a))
        return r[0] if r else a

    def walk(prefixes, acc, depth):
        for length, low, high, props, children in prefixes:
            if children and len(groups) < parents * 4:
                kids = [acc + low + c[1] for c in children]
                pick = list(dict.fromkeys([kids[0], kids[len(kids) // 2], kids[-1]]))
                if len(pick) >= 2:
                    groups.append([shape(x) for x in pick])
                if depth < 3:
                    walk(children, acc + low, depth + 1)
    for dbn in registry_names(m, sv, funcs):
        try:
            db = nd.get(dbn) if isinstance(dbn, str) else dbn
        except Exception:
            continue
        before = len(groups)
        walk(db.prefixes, '', 0)
        # neighbouring top-level entries as one more group
        tops = [low for length, low, high, props, children in db.prefixes[:3]]
        if len(tops) >= 2:
            groups.append([shape(x) for x in tops])
        del groups[before + parents + 1:]
    return [g for g in groups if len(set(g)) >= 2]


# ------------------------------------------------------------------------------------------ code tables

def table_inputs(name, m, sv, limit=1500):
    """Inputs built from the module's own tables of strings (court names, prefixes, type codes ...): where a
    seed contains one entry of a module-level collection, every other entry (and dict key) is substituted
    for it.  Only adds start states; says nothing about what the entries mean."""
    out = []
    seeds = []
    for s_, v in sv[:3]:
        for x in (v, s_):
            if x not in seeds:
                seeds.append(x)
    for attr, val in sorted(vars(m).items()):
        if attr.startswith('__'):
            continue
        if isinstance(val, dict):
            entries = [k for k in val if isinstance(k, str)]
            entries += [x for x in val.values() if isinstance(x, str)]
        elif isinstance(val, (tuple, list, set, frozenset)):
            entries = [k for k in val if isinstance(k, str)]
        else:
            continue
        entries = sorted(set(e for e in entries if e), key=lambda e: (-len(e), e))
        if len(entries) < 3:
            continue
        for seed in seeds:
            low = seed.lower()
            hit = next((e for e in entries if len(e) >= 2 and e.lower() in low), None)
            if hit is None:
                continue
            i = low.index(hit.lower())
            for e in entries:
                if e != hit:
                    out.append(seed[:i] + e + seed[i + len(hit):])
            break
    out = list(dict.fromkeys(out))
    if len(out) > limit:
        step = len(out) / float(limit)
        out = [out[int(i * step)] for i in range(limit)]
    return out


# ------------------------------------------------------------------------------------------ code literals

def code_chars(m):
    """Single ASCII letters that occur as literals in the code of the module's own functions (a type / prefix letter)."""
    import types
    out = []

    def consts(code, depth=0):
        for c in code.co_consts:
            if isinstance(c, str) and len(c) == 1 and c.isascii() and c.isalpha():
                out.append(c)
            elif isinstance(c, (tuple, frozenset)):
                out.extend(x for x in c if isinstance(x, str) and len(x) == 1 and x.isascii() and x.isalpha())
            elif isinstance(c, types.CodeType) and depth < 3:
                consts(c, depth + 1)
    for k, v in sorted(vars(m).items()):
        if isinstance(v, types.FunctionType) and v.__module__ == m.__name__:
            consts(v.__code__)
    return list(dict.fromkeys(out))


def code_literals(m):
    """Alphanumeric string literals (2..40 characters) in the code of the module's own functions: the values
    the code compares its argument with (special prefixes, reserved numbers, exempt ranges)."""
    import types
    out = []

    def consts(code, depth=0):
        for c in code.co_consts:
            if isinstance(c, str) and 2 <= len(c) <= 40 and c.isascii() and c.isalnum():
                out.append(c)
            elif isinstance(c, (tuple, frozenset)):
                out.extend(x for x in c if isinstance(x, str) and 2 <= len(x) <= 40 and x.isascii() and x.isalnum())
            elif isinstance(c, types.CodeType) and depth < 3:
                consts(c, depth + 1)
    for k, v in sorted(vars(m).items()):
        if isinstance(v, types.FunctionType) and v.__module__ == m.__name__:
            consts(v.__code__)
    return list(dict.fromkeys(out))


def literal_variants(name, m, sv, limit=16):
    """Valid numbers in which a literal of the module's code replaces the head, the tail or the whole of a
    documented number (check position repaired): start states behind the branches that compare with it."""
    out = []
    lits = [x for x in code_literals(m) if any(ch.isdigit() for ch in x) or len(x) <= 4]
    lits.sort(key=lambda x: (-len(x), x))
    seeds = [v for s_, v in sv[:2] if isinstance(v, str)]
    for lit in lits[:24]:
        for v in seeds:
            if len(lit) > len(v):
                continue
            cands = [lit + v[len(lit):], v[:len(v) - len(lit)] + lit]
            # ... and numbers of neighbouring lengths that start with the literal (tails of the documented number)
            for extra in (-2, -1, 1, 2, 3):
                k = len(v) + extra - len(lit)
                if 1 <= k <= len(v):
                    cands.append(lit + v[len(v) - k:])
            for t in cands:
                if t == v:
                    continue
                for u in _repair(m, t)[:1]:
                    if u not in out and u != v:
                        out.append(u)
            if len(out) >= limit:
                return out
    return out


def table_range_variants(name, m, sv, limit=48):
    """Valid numbers that carry the endpoints of the module's own range tables (module-level tuples / lists of tuples
    with digit strings, e.g. the ISMN publisher ranges) at every offset of a documented number, check position repaired:
    the first / last member of each range is where table lookups go wrong."""
    ends = []

    def walk(o, depth=0):
        if isinstance(o, str):
            if 2 <= len(o) <= 12 and o.isascii() and o.isalnum() and any(c.isdigit() for c in o):
                ends.append(o)
        elif isinstance(o, (tuple, list)) and depth < 3 and len(o) <= 400:
            for x in o:
                walk(x, depth + 1)
    for k, val in sorted(vars(m).items()):
        if not k.startswith('__') and isinstance(val, (tuple, list)) and val and isinstance(val[0], (tuple, list)):
            walk(val)
    ends = list(dict.fromkeys(ends))[:40]
    out = []
    seeds = [v for s_, v in sv[:2] if isinstance(v, str)]
    for e in ends:
        got = 0
        for v in seeds[:1]:
            for off in range(0, len(v) - len(e) + 1):
                t = v[:off] + e + v[off + len(e):]
                if t == v or got >= 4:
                    continue
                for u in _repair(m, t)[:1]:
                    if u not in out and u != v:
                        out.append(u)
                        got += 1
                        break
    return out[:limit]


def literal_inputs(name, m, sv, limit=1200):
    """Plain states built from the literals of the module's code: the literal put in front of / behind a documented
    number, over its head, and in front of a number that itself starts with the literal (a prefix that is stripped
    once must not be part of what is returned)."""
    out = []
    lits = [x for x in code_literals(m) if len(x) <= 10]
    lits.sort(key=lambda x: (-len(x), x))
    xs = []
    for s_, v in sv[:2]:
        for x in (v, s_):
            if isinstance(x, str) and x not in xs:
                xs.append(x)
    valid = literal_variants(name, m, sv)
    for lit in lits[:30]:
        for x in xs:
            over = lit + x[len(lit):] if len(x) > len(lit) else lit
            out += [lit + x, lit + ' ' + x, lit + lit + x, x + lit, over, lit + over, lit + ' ' + over,
                    lit.lower() + x, lit + ':' + x]
            rep = _repair(m, over)[:1] if len(out) < limit else []
            for u in rep:
                out += [u, lit + u]
        for u in valid[:6]:
            out += [lit + u, lit + ' ' + u]
    # single letters of the code as a prefix / suffix of the documented numbers
    for ch in code_chars(m)[:12]:
        for x in xs:
            out += [ch + x, ch + '-' + x, x + ch, ch.lower() + x]
    out = list(dict.fromkeys(valid + out))
    return out[:limit]


# ------------------------------------------------------------------------------------------ digit runs

def run_numbers(name, m, sv, limit=120):
    """Valid numbers with runs of zeros / nines at the head and the tail (suffix and prefix stripping, leading
    zero handling): the seed with its first / last k characters replaced, check position repaired."""
    out = []
    for s_, v in sv[:2]:
        n = len(v)
        cands = []
        for k in range(1, min(7, n)):
            for ch in '09':
                if all(c in D for c in v[n - k:]):
                    cands.append(v[:n - k] + ch * k)
                if all(c in D for c in v[:k]):
                    cands.append(ch * k + v[k:])
                mid = (n - k) // 2
                if all(c in D for c in v[mid:mid + k]):
                    cands.append(v[:mid] + ch * k + v[mid + k:])
        for t in dict.fromkeys(cands):
            if t == v:
                continue
            for u in _repair(m, t, None, table_check_positions(name, m, t)):
                if u not in out:
                    out.append(u)
            if len(out) >= limit:
                return out
        # runs that include the check character itself (numbers ending in 000, check digit 0): keep the run and
        # repair at any single other position instead
        def ok(u):
            """u itself, or u followed by an all-zero suffix, is accepted: returns the accepted text or None."""
            if e2._accepts(m, u, {}):
                return u
            for suf in ('000', '00', '0000'):
                try:
                    if m.is_valid(u + suf):
                        return u + suf
                except Exception:
                    pass
            return None
        for k in (2, 3, 4):
            for ch in '09':
                if n > k + 1 and all(c in D for c in v[n - k:]):
                    t = v[:n - k] + ch * k
                    a = ok(t)
                    if a:
                        if a not in out:
                            out.append(a)
                        continue
                    found = False
                    for i in range(n - k):
                        if t[i] not in D:
                            continue
                        for c in D:
                            u = t[:i] + c + t[i + 1:]
                            a = ok(u) if u != t else None
                            if a:
                                if a not in out:
                                    out.append(a)
                                found = True
                                break
                        if found:
                            break
    # the same numbers with the run repeated as a suffix (formats with an optional all-zero suffix)
    for u in list(out)[:40]:
        for suf in ('000', '0000', '00'):
            try:
                if m.is_valid(u + suf) and u + suf not in out:
                    out.append(u + suf)
            except Exception:
                pass
    return out


# ------------------------------------------------------------------------------------------ GS1 element strings

def gs1_strings(limit=600):
    """Element strings built from the registry of application identifiers (one witness per format class alone,
    and a full-length variable value followed by two more variable values) with and without separators."""
    try:
        from .checks import c16
    except Exception:
        return []
    tab = c16.table()
    cl = c16.classes(tab)
    out = []
    firsts = []
    for k in sorted(cl):
        ai = cl[k][0]
        ws = c16._wit(ai, k[0], k[1], True)
        if not ws:
            continue
        out.append(ai + ws[0])
        out.append('(%s)%s' % (ai, ws[-1]))
        full = [w for w in ws if len(w) == c16.maxlen(k[0], k[1])]
        if k[2] and full:
            firsts.append(ai + full[0])
    for f in firsts:
        for sep in ('|', '[FNC1]', '\x1d'):
            out.append(f + sep + '21S1' + sep + '22V')
            out.append(f + sep + '400X' + sep + '401Y')
    return list(dict.fromkeys(out))[:limit]


# ------------------------------------------------------------------------------------------ other lengths

def length_variants(name, m, sv, limit=40):
    """Valid canonical numbers of *other lengths* than the seeds (branches of the format that have no documented
    example): the seed padded / truncated at either end by 1-4 characters, check position repaired."""
    out = []
    have = {len(v) for s_, v in sv}
    for s_, v in sv[:3]:
        n = len(v)
        cands = []
        for k in (1, 2, 3, 4):
            cands += [v + '0' * k, '0' * k + v, v + '1' * k, v[:-k], v[k:], v[:n // 2] + '0' * k + v[n // 2:]]
            if n > 2 * k:
                cands.append(v[:n // 2 - k] + v[n // 2:])
        for t in dict.fromkeys(cands):
            if not t or len(t) in have and False:
                continue
            for u in _repair(m, t, None, table_check_positions(name, m, t))[:1]:
                if len(u) not in {len(x) for x in out} | have or len([x for x in out if len(x) == len(u)]) < 3:
                    if u not in out:
                        out.append(u)
            if len(out) >= limit:
                return out
    return out
