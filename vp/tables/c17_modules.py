"""C17: modules whose documented check covers a span, the span, whether adjacent transpositions are
promised (statement of C17), and an optional guard on the canonical number."""


def _all(v):
    return range(len(v))


# name -> (span function, transposition promised, guard, validate kwargs)
MODULES = {
    'stdnum.isbn': (_all, lambda v: len(v) == 10, None),
    'stdnum.ean': (_all, False, None),
    'stdnum.issn': (_all, True, None),
    'stdnum.ismn': (_all, False, None),
    'stdnum.imei': (_all, False, lambda v: len(v) == 15),
    'stdnum.isni': (_all, True, None),
    'stdnum.iban': (_all, True, None),
    'stdnum.lei': (_all, True, None),
    'stdnum.iso11649': (_all, True, None),
    'stdnum.grid': (_all, False, None),
    'stdnum.luhn': (_all, False, None),
    'stdnum.verhoeff': (_all, True, None),
    'stdnum.damm': (_all, True, None),
    'stdnum.iso7064.mod_11_2': (_all, True, None),
    'stdnum.iso7064.mod_11_10': (_all, False, None),
    'stdnum.iso7064.mod_37_2': (_all, True, None),
    'stdnum.iso7064.mod_37_36': (_all, False, None),
    'stdnum.iso7064.mod_97_10': (_all, True, None),
    # national numbers protected by Luhn / Verhoeff / Damm / ISO 7064 over the whole number (or stated span)
    'stdnum.ca.sin': (_all, False, None),
    'stdnum.fr.siren': (_all, False, None),
    'stdnum.fr.siret': (_all, False, lambda v: not v.startswith('356000000')),
    'stdnum.il.idnr': (_all, False, None),
    'stdnum.il.hp': (_all, False, None),
    'stdnum.se.orgnr': (_all, False, None),
    'stdnum.se.personnummer': (lambda v: [i for i in range(len(v) - 11, len(v)) if i >= 0], False, None),
    'stdnum.in_.aadhaar': (_all, True, None),
    'stdnum.in_.vid': (_all, True, None),
    'stdnum.hr.oib': (_all, False, None),
    'stdnum.de.idnr': (_all, False, None),
    'stdnum.de.vat': (_all, False, None),
    'stdnum.rs.pib': (_all, False, None),
    'stdnum.it.iva': (_all, False, None),
    'stdnum.gr.amka': (_all, False, None),
    'stdnum.gn.nifp': (_all, False, None),
    'stdnum.za.idnr': (_all, False, None),
    'stdnum.za.tin': (_all, False, None),
    'stdnum.ca.bn': (lambda v: range(9), False, None),
    'stdnum.no.kontonr': (_all, False, lambda v: len(v) == 7),
}
