"""C12: documented kinds of derived-attribute functions and date field maps.

Getters are discovered by name (get_*, info, split, *_type, guess_*, mask, is_* of mac) among the public
functions defined in a number module whose only required parameter is the number.  KIND gives the documented
kind by function name, OVERRIDE per (module, function).  DATE_FIELDS: where the module docstring says the
year / month / day digits sit in the canonical number, and the documented offsets."""
import datetime

DATE_OR_NONE = {('stdnum.be.nn', 'get_birth_date'), ('stdnum.be.bis', 'get_birth_date'), ('stdnum.be.ssn', 'get_birth_date')}
GENDER_OR_NONE = {('stdnum.be.bis', 'get_gender'), ('stdnum.be.ssn', 'get_gender')}

SKIP_PREFIX = ('calc_', 'check_', 'to_', 'from_', 'convert', 'encode', 'validate_', 'search_', 'b32', 'b58', 'bech32')
SKIP = {'validate', 'is_valid', 'compact', 'format', 'checksum'}


def is_str(x):
    return isinstance(x, str)


def kind_ok(module, fn, r):
    """None when r is of the documented kind, else a description of what was expected."""
    key = (module, fn)
    if fn == 'get_birth_date':
        if isinstance(r, datetime.date) or (r is None and key in DATE_OR_NONE):
            return None
        return 'a date'
    if fn in ('get_birth_year', 'get_birth_month'):
        return None if (r is None or (isinstance(r, int) and not isinstance(r, bool))) else 'int or None'
    if fn == 'get_gender':
        if r in ('M', 'F') or (r is None and key in GENDER_OR_NONE):
            return None
        return "'M' or 'F'"
    if fn == 'split':
        if isinstance(r, (tuple, list)) and all(is_str(p) for p in r):
            return None
        return 'sequence of str'
    if fn.startswith('is_'):
        return None if isinstance(r, bool) else 'bool'
    if fn in ('guess_country', 'guess_type', 'guess_regions'):
        if is_str(r) or r is None or (isinstance(r, (list, tuple)) and all(is_str(p) for p in r)):
            return None
        return 'str or list of str'
    if fn.endswith('_type') or fn in ('mask', 'get_label', 'label', 'get_province', 'get_county', 'get_region',
                                      'get_citizenship', 'get_campus', 'get_oui', 'get_iab', 'get_manufacturer'):
        return None if (is_str(r) or r is None) else 'str'
    if fn in ('info', 'get_birth_place'):
        if isinstance(r, dict) and all(is_str(k) for k in r):
            return None
        return 'dict'
    return None if isinstance(r, (str, int, dict, list, tuple, type(None), datetime.date)) else 'plain value'


def _i(s):
    return int(s) if s.isdigit() and s.isascii() else None


# module -> function(v) -> (yy, mm, dd) as decoded from the digits (None component = not encoded / unknown)
def _ymd(a, b, c, mmod=None, dmod=None):
    def f(v):
        yy, mm, dd = _i(v[a:a + 2]), _i(v[b:b + 2]), _i(v[c:c + 2])
        if mm is not None and mmod:
            for mo in mmod:
                mm = mm % mo
        if dd is not None and dmod:
            dd = dd % dmod
        return yy, mm, dd
    return f


def _last10(v):
    d = ''.join(c for c in v if c.isdigit())[-10:]
    return _i(d[0:2]), _i(d[2:4]), (_i(d[4:6]) or 0) % 60


DATE_FIELDS = {
    'stdnum.be.nn': _ymd(0, 2, 4, mmod=(20,)),
    'stdnum.be.bis': _ymd(0, 2, 4, mmod=(20,)),
    'stdnum.be.ssn': _ymd(0, 2, 4, mmod=(20,)),
    'stdnum.bg.egn': _ymd(0, 2, 4, mmod=(20,)),
    'stdnum.cn.ric': _ymd(8, 10, 12),
    'stdnum.cu.ni': _ymd(0, 2, 4),
    'stdnum.cz.rc': _ymd(0, 2, 4, mmod=(50, 20)),
    'stdnum.dk.cpr': _ymd(4, 2, 0),
    'stdnum.ee.ik': _ymd(1, 3, 5),
    'stdnum.gr.amka': _ymd(4, 2, 0),
    'stdnum.id.nik': _ymd(10, 8, 6, dmod=40),
    'stdnum.kr.rrn': _ymd(0, 2, 4),
    'stdnum.lv.pvn': _ymd(4, 2, 0),
    'stdnum.mx.curp': _ymd(4, 6, 8),
    'stdnum.my.nric': _ymd(0, 2, 4),
    'stdnum.no.fodselsnummer': _ymd(4, 2, 0, mmod=(40,), dmod=40),
    'stdnum.pl.pesel': _ymd(0, 2, 4, mmod=(20,)),
    'stdnum.ro.cnp': _ymd(1, 3, 5),
    'stdnum.se.personnummer': _last10,
    'stdnum.si.emso': _ymd(5, 2, 0),
    'stdnum.za.idnr': _ymd(0, 2, 4),
}


# documented type getters: expected value by length of the canonical number
TYPE_BY_LENGTH = {
    ('stdnum.imei', 'imei_type'): {14: 'IMEI', 15: 'IMEI', 16: 'IMEISV'},
    ('stdnum.isbn', 'isbn_type'): {10: 'ISBN10', 13: 'ISBN13'},
    ('stdnum.ismn', 'ismn_type'): {10: 'ISMN10', 13: 'ISMN13'},
}


def se_century_rule(v, date, today):
    """se.personnummer docstring: the dash is changed to a plus the year a person turns 100."""
    if len(v) != 11 or v[-5] not in '+-':
        return None
    age = today.year - date.year
    if v[-5] == '-' and not (0 <= age < 100):
        return "'-' means younger than 100 in %d, got birth year %d" % (today.year, date.year)
    if v[-5] == '+' and not (100 <= age < 200):
        return "'+' means 100 or older in %d, got birth year %d" % (today.year, date.year)
    return None


CENTURY_RULES = {'stdnum.se.personnummer': se_century_rule}


# ---- full birth year as encoded by the digits of the number (century digit / month offset / sign), from the
# published layout of each number; None = the rule does not apply to this number
def _yy(v, a):
    return int(v[a:a + 2])


def _dk(v):
    c, yy = int(v[6]), _yy(v, 4)
    if c <= 3:
        return 1900 + yy
    if c == 4 or c == 9:
        return 2000 + yy if yy <= 36 else 1900 + yy
    return 2000 + yy if yy <= 57 else 1800 + yy


def _ee(v):
    g = int(v[0])
    return 1800 + ((g - 1) // 2) * 100 + _yy(v, 1) if 1 <= g <= 8 else None


def _ro(v):
    s = int(v[0])
    base = {1: 1900, 2: 1900, 3: 1800, 4: 1800, 5: 2000, 6: 2000}.get(s)
    return base + _yy(v, 1) if base else None


def _si(v):
    y = int(v[4:7])
    return 1000 + y if y >= 800 else 2000 + y


def _bg(v):
    mm = _yy(v, 2)
    base = 1900 if mm <= 12 else 1800 if 21 <= mm <= 32 else 2000 if 41 <= mm <= 52 else None
    return base + _yy(v, 0) if base else None


def _pl(v):
    mm = _yy(v, 2)
    base = {0: 1900, 1: 2000, 2: 2100, 3: 2200, 4: 1800}.get((mm - 1) // 20) if 1 <= (mm - 1) % 20 + 1 <= 12 else None
    return base + _yy(v, 0) if base else None


def _lv(v):
    if len(v) != 11 or v[0] > '3':
        return None
    base = {0: 1800, 1: 1900, 2: 2000}.get(int(v[6]))
    return base + _yy(v, 4) if base else None


def _fi(v):
    sign = v[6]
    base = 1800 if sign == '+' else 1900 if sign in '-YXWVU' else 2000 if sign in 'ABCDEF' else None
    return base + _yy(v, 4) if base else None


def _kr(v):
    base = {1: 1900, 2: 1900, 5: 1900, 6: 1900, 3: 2000, 4: 2000, 7: 2000, 8: 2000, 9: 1800, 0: 1800}[int(v[6])]
    return base + _yy(v, 0)


def _cu(v):
    c = int(v[6])
    base = 1800 if c == 9 else 1900 if c <= 5 else 2000
    return base + _yy(v, 0)


def _mx(v):
    return (1900 if v[16].isdigit() else 2000) + _yy(v, 4)


def _czrc(v):
    # birth numbers: 9 digits were issued until the end of 1953 (yy 00..53 -> 19yy, yy 80..99 -> 18yy), 10 digits since
    # 1954 (yy 54..99 -> 19yy, 00..53 -> 20yy)
    yy = int(v[:2])
    if len(v) == 9:
        return 1900 + yy if yy <= 53 else (1800 + yy if yy >= 80 else None)
    return 1900 + yy if yy >= 54 else 2000 + yy


def _no(v):
    # Norwegian birth numbers (Skatteetaten): individual number 000-499 -> 1900-1999; 500-749 with yy >= 54 -> 1854-1899;
    # 500-999 with yy < 40 -> 2000-2039; 900-999 with yy >= 40 -> 1940-1999
    yy, ind = int(v[4:6]), int(v[6:9])
    if ind < 500:
        return 1900 + yy
    if ind < 750 and yy >= 54:
        return 1800 + yy
    if yy < 40:
        return 2000 + yy
    if ind >= 900:
        return 1900 + yy
    return None


YEAR_RULES = {
    'stdnum.cz.rc': _czrc, 'stdnum.sk.rc': _czrc, 'stdnum.no.fodselsnummer': _no,
    'stdnum.dk.cpr': _dk, 'stdnum.ee.ik': _ee, 'stdnum.lt.asmens': _ee, 'stdnum.ro.cnp': _ro, 'stdnum.si.emso': _si,
    'stdnum.bg.egn': _bg, 'stdnum.pl.pesel': _pl, 'stdnum.lv.pvn': _lv, 'stdnum.fi.hetu': _fi, 'stdnum.kr.rrn': _kr,
    'stdnum.cu.ni': _cu, 'stdnum.mx.curp': _mx, 'stdnum.cn.ric': lambda v: int(v[6:10]),
}
DATE_FIELDS['stdnum.lt.asmens'] = _ymd(1, 3, 5)
DATE_FIELDS['stdnum.fi.hetu'] = _ymd(4, 2, 0)
