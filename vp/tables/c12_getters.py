"""C12: documented kinds of derived-attribute functions and date field maps.

Getters are discovered by name (get_*, info, split, *_type, guess_*, mask, is_* of mac) among the public
functions defined in a number module whose only required parameter is the number.  KIND gives the documented
kind by function name, OVERRIDE per (module, function).  DATE_FIELDS: where the module docstring says the
year / month / day digits sit in the canonical number, and the documented offsets."""
import datetime

DATE_OR_NONE = {('stdnum.be.nn', 'get_birth_date'), ('stdnum.be.bis', 'get_birth_date'), ('stdnum.be.ssn', 'get_birth_date')}
GENDER_OR_NONE = {('stdnum.be.bis', 'get_gender'), ('stdnum.be.ssn', 'get_gender')}

SKIP_PREFIX = ('calc_', 'check_', 'to_', 'from_', 'convert', 'encode', 'validate_', 'search_', 'b32', 'b58', 'bech32')
SKIP = {'validate', 'is_valid', 'compact', 'format', 'checksum'}


def is_str(x):
    return isinstance(x, str)


def kind_ok(module, fn, r):
    """None when r is of the documented kind, else a description of what was expected."""
    key = (module, fn)
    if fn == 'get_birth_date':
        if isinstance(r, datetime.date) or (r is None and key in DATE_OR_NONE):
            return None
        return 'a date'
    if fn in ('get_birth_year', 'get_birth_month'):
        return None if (r is None or (isinstance(r, int) and not isinstance(r, bool))) else 'int or None'
    if fn == 'get_gender':
        if r in ('M', 'F') or (r is None and key in GENDER_OR_NONE):
            return None
        return "'M' or 'F'"
    if fn == 'split':
        if isinstance(r, (tuple, list)) and all(is_str(p) for p in r):
            return None
        return 'sequence of str'
    if fn.startswith('is_'):
        return None if isinstance(r, bool) else 'bool'
    if fn in ('guess_country', 'guess_type', 'guess_regions'):
        if is_str(r) or r is None or (isinstance(r, (list, tuple)) and all(is_str(p) for p in r)):
            return None
        return 'str or list of str'
    if fn.endswith('_type') or fn in ('mask', 'get_label', 'label', 'get_province', 'get_county', 'get_region',
                                      'get_citizenship', 'get_campus', 'get_oui', 'get_iab', 'get_manufacturer'):
        return None if (is_str(r) or r is None) else 'str'
    if fn in ('info', 'get_birth_place'):
        if isinstance(r, dict) and all(is_str(k) for k in r):
            return None
        return 'dict'
    return None if isinstance(r, (str, int, dict, list, tuple, type(None), datetime.date)) else 'plain value'


def _i(s):
    return int(s) if s.isdigit() and s.isascii() else None


# module -> function(v) -> (yy, mm, dd) as decoded from the digits (None component = not encoded / unknown)
def _ymd(a, b, c, mmod=None, dmod=None):
    def f(v):
        yy, mm, dd = _i(v[a:a + 2]), _i(v[b:b + 2]), _i(v[c:c + 2])
        if mm is not None and mmod:
            for mo in mmod:
                mm = mm % mo
        if dd is not None and dmod:
            dd = dd % dmod
        return yy, mm, dd
    return f


def _last10(v):
    d = ''.join(c for c in v if c.isdigit())[-10:]
    return _i(d[0:2]), _i(d[2:4]), (_i(d[4:6]) or 0) % 60


DATE_FIELDS = {
    'stdnum.be.nn': _ymd(0, 2, 4, mmod=(20,)),
    'stdnum.be.bis': _ymd(0, 2, 4, mmod=(20,)),
    'stdnum.be.ssn': _ymd(0, 2, 4, mmod=(20,)),
    'stdnum.bg.egn': _ymd(0, 2, 4, mmod=(20,)),
    'stdnum.cn.ric': _ymd(8, 10, 12),
    'stdnum.cu.ni': _ymd(0, 2, 4),
    'stdnum.cz.rc': _ymd(0, 2, 4, mmod=(50, 20)),
    'stdnum.dk.cpr': _ymd(4, 2, 0),
    'stdnum.ee.ik': _ymd(1, 3, 5),
    'stdnum.gr.amka': _ymd(4, 2, 0),
    'stdnum.id.nik': _ymd(10, 8, 6, dmod=40),
    'stdnum.kr.rrn': _ymd(0, 2, 4),
    'stdnum.lv.pvn': _ymd(4, 2, 0),
    'stdnum.mx.curp': _ymd(4, 6, 8),
    'stdnum.my.nric': _ymd(0, 2, 4),
    'stdnum.no.fodselsnummer': _ymd(4, 2, 0, mmod=(40,), dmod=40),
    'stdnum.pl.pesel': _ymd(0, 2, 4, mmod=(20,)),
    'stdnum.ro.cnp': _ymd(1, 3, 5),
    'stdnum.se.personnummer': _last10,
    'stdnum.si.emso': _ymd(5, 2, 0),
    'stdnum.za.idnr': _ymd(0, 2, 4),
}


# documented type getters: expected value by length of the canonical number
TYPE_BY_LENGTH = {
    ('stdnum.imei', 'imei_type'): {14: 'IMEI', 15: 'IMEI', 16: 'IMEISV'},
    ('stdnum.isbn', 'isbn_type'): {10: 'ISBN10', 13: 'ISBN13'},
    ('stdnum.ismn', 'ismn_type'): {10: 'ISMN10', 13: 'ISMN13'},
}


def se_century_rule(v, date, today):
    """se.personnummer docstring: the dash is changed to a plus the year a person turns 100."""
    if len(v) != 11 or v[-5] not in '+-':
        return None
    age = today.year - date.year
    if v[-5] == '-' and not (0 <= age < 100):
        return "'-' means younger than 100 in %d, got birth year %d" % (today.year, date.year)
    if v[-5] == '+' and not (100 <= age < 200):
        return "'+' means 100 or older in %d, got birth year %d" % (today.year, date.year)
    return None


CENTURY_RULES = {'stdnum.se.personnummer': se_century_rule}
