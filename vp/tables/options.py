"""Option domains (DESIGN.md §1.7).  Booleans are discovered from signatures; selectors with a
None default get the committed domain below (from the module docstrings)."""
import inspect

DOMAINS = {
    ('stdnum.at.tin', 'office'): [None, 'St. Veit Wolfsberg', 'Wien 1/23', 'Salzburg-Stadt', 'Nowhere'],
    ('stdnum.de.stnr', 'region'): [None, 'Sachsen', 'Thuringen', 'Bayern', 'Berlin', 'Nordrhein-Westfalen',
                                   'Baden-Württemberg', 'Atlantis'],
    ('stdnum.de.handelsregisternummer', 'company_form'): [None, 'GmbH', 'e.G.', 'PartG', 'KG', 'XYZ'],
    ('stdnum.mac', 'validate_manufacturer'): [None, True, False],
    ('stdnum.gs1_128', 'separator'): ['', '|', '[FNC1]', '\x1d'],
    ('stdnum.luhn', 'alphabet'): ['0123456789', '0123456789abcdef', '0123456789ABCDEFGHIJKLMNOPQRSTUVWXYZ',
                                   'abcdef', 'ABCDEFGHIJKLMNOPQRSTUVWXYZ0123456789'],
    # other moduli, and other alphabets of the *same* length (a table cached per length or per character goes stale)
    ('stdnum.iso7064.mod_37_2', 'alphabet'): ['0123456789ABCDEFGHIJKLMNOPQRSTUVWXYZ*', '0123456789X',
                                                'ABCDEFGHIJKLMNOPQRSTUVWXYZ0123456789*', 'X0123456789'],
    ('stdnum.iso7064.mod_37_36', 'alphabet'): ['0123456789ABCDEFGHIJKLMNOPQRSTUVWXYZ', '0123456789',
                                                 'ABCDEFGHIJKLMNOPQRSTUVWXYZ0123456789', '9876543210'],
    # the alternative table printed in the damm docstring
    ('stdnum.damm', 'table'): [None, ((0, 2, 3, 4, 5, 6, 7, 8, 9, 1), (2, 0, 4, 1, 7, 9, 5, 3, 8, 6),
                                      (3, 7, 0, 5, 2, 8, 1, 6, 4, 9), (4, 1, 8, 0, 6, 3, 9, 2, 7, 5),
                                      (5, 6, 2, 9, 0, 7, 4, 1, 3, 8), (6, 9, 7, 3, 1, 0, 8, 5, 2, 4),
                                      (7, 5, 1, 8, 4, 2, 0, 9, 6, 3), (8, 4, 6, 2, 9, 5, 3, 0, 1, 7),
                                      (9, 8, 5, 7, 3, 1, 6, 4, 0, 2), (1, 3, 9, 6, 8, 4, 2, 7, 5, 0))],
    ('stdnum.meid', 'format'): [None, 'hex', 'dec'],
}


# option domains by parameter name (any module): the lowest year a two-digit year may stand for; the two-digit
# issue code appended to an ISSN in an EAN
BY_NAME = {
    'minyear': [1900, 1920, 1999, 2000, 2001, 2024],
    'issue_code': ['00', '01', '13', '99'],
}


def option_sets(modname, func, other=None):
    """List of kwargs dicts with at most one non-default option (deviation bound 1 on options).
    Only options accepted by `func` (and by `other`, when given) are used."""
    try:
        sig = inspect.signature(func)
    except (TypeError, ValueError):
        return [{}], []
    params = [p for p in list(sig.parameters.values())[1:] if p.default is not inspect.Parameter.empty]
    if other is not None:
        try:
            names = set(inspect.signature(other).parameters)
        except (TypeError, ValueError):
            names = set()
        params = [p for p in params if p.name in names]
    out = [{}]
    unknown = []
    for p in params:
        if isinstance(p.default, bool):
            out.append({p.name: not p.default})
        elif (modname, p.name) in DOMAINS:
            for v in DOMAINS[(modname, p.name)]:
                if v != p.default:
                    out.append({p.name: v})
        elif p.name in BY_NAME:
            for v in BY_NAME[p.name]:
                if v != p.default:
                    out.append({p.name: v})
        elif p.name == 'separator':
            for v in ('', ' ', '-'):
                if v != p.default:
                    out.append({p.name: v})
        else:
            unknown.append(p.name)
    return out, unknown


def option_combos(modname, func, other=None):
    """kwargs dicts with two or three non-default options on different parameters (the few functions that take
    several options: isan.validate/format, meid.format, imei.format, isbn.format): the full product of the single
    non-default values."""
    import itertools
    singles = option_sets(modname, func, other)[0][1:]
    out = []
    for r in (2, 3):
        for combo in itertools.combinations(singles, r):
            keys = [list(c)[0] for c in combo]
            if len(set(keys)) != r:
                continue
            d = {}
            for c in combo:
                d.update(c)
            out.append(d)
    return out
