"""C04: the normalisations the statement documents (applied to BOTH sides before comparison)."""


def _meid_hex(v):
    """MEID without check digit, in hexadecimal (18 decimal digits = 10 + 8 -> 8 + 6 hex digits)."""
    v = v.upper()
    if len(v) in (18, 19) and v[:18].isdigit():
        return '%08X%06X' % (int(v[:10]), int(v[10:18]))
    return v[:14]


DOCUMENTED = ('stdnum.ismn', 'stdnum.isan', 'stdnum.isil', 'stdnum.meid')


def normalise(name, v, opts):
    if name == 'stdnum.ismn':
        if len(v) == 10 and v[0] == 'M':
            return '9790' + v[1:]
        return v
    if name == 'stdnum.isan':
        # ISAN shown with check characters added: compare root+episode(+version) without check characters
        v = v.replace('-', '').upper()
        if len(v) == 26:        # root episode check version check
            return v[:16] + v[17:25]
        if len(v) == 25:        # root episode version check
            return v[:24]
        if len(v) == 17:
            return v[:16]
        return v
    if name == 'stdnum.isil':
        p, sep, rest = v.partition('-')
        return p.upper() + sep + rest
    if name == 'stdnum.meid':
        return _meid_hex(v)
    if name == 'stdnum.imei' and opts.get('add_check_digit'):
        return v[:14]
    if name == 'stdnum.isbn' and opts.get('convert'):
        if len(v) == 10:
            body = '978' + v[:9]
            chk = (10 - sum((3 if i % 2 else 1) * int(c) for i, c in enumerate(body))) % 10
            return body + str(chk)
        return v
    return v
