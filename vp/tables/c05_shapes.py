"""C05: where the check characters of a canonical number sit and what the generator takes.

A row is (generator name, shape, options) where shape(v) -> (argument for the generator,
tuple of check positions) or None when the row does not apply to this canonical number v.
Content: each module's calc_* docstring and the way its validate() documents the number layout;
first drafted by shape inference on the pinned tree, then reviewed."""


def last(n):
    def f(v):
        if len(v) <= n:
            return None
        return v[:-n], tuple(range(len(v) - n, len(v)))
    return f


def full_last(n):
    def f(v):
        if len(v) <= n:
            return None
        return v, tuple(range(len(v) - n, len(v)))
    return f


def first(n):
    def f(v):
        if len(v) <= n:
            return None
        return v[n:], tuple(range(n))
    return f


def at(arg, *pos):
    def f(v):
        if len(v) <= max(pos):
            return None
        return arg(v), pos
    return f


def guard(cond, shape):
    def f(v):
        try:
            if not cond(v):
                return None
        except Exception:
            return None
        return shape(v)
    return f


ident = lambda v: v   # noqa: E731
D = '0123456789'


def isd(s):
    return s != '' and all(c in D for c in s)


# modules not listed here use [('calc_check_digit', last(1))] / [('calc_check_digits', last(2))]
TABLE = {
    'stdnum.ar.cbu': [('calc_check_digit', at(lambda v: v[:7], 7)), ('calc_check_digit', at(lambda v: v[8:-1], 21))],
    'stdnum.at.vnr': [('calc_check_digit', at(ident, 3))],
    'stdnum.au.abn': [('calc_check_digits', first(2))],
    'stdnum.bg.vat': [('calc_check_digit_legal', guard(lambda v: len(v) == 9, last(1)))],
    'stdnum.ca.bc_phn': [('calc_check_digit', at(lambda v: v[1:9], 9))],
    'stdnum.ch.uid': [('calc_check_digit', at(lambda v: v[3:-1], 11))],
    'stdnum.cn.ric': [('calc_check_digit', full_last(1))],
    'stdnum.cz.dic': [('calc_check_digit_legal', guard(lambda v: len(v) == 8, last(1))),
                      ('calc_check_digit_special', guard(lambda v: len(v) == 9 and v[0] == '6',
                                                         at(lambda v: v[1:-1], 8)))],
    'stdnum.ee.ik': [('calc_check_digit', full_last(1))],
    'stdnum.es.ccc': [('calc_check_digits', at(ident, 8, 9))],
    'stdnum.es.cif': [('calc_check_digits', last(1), {'alternatives': True})],
    'stdnum.es.cups': [('calc_check_digits', at(ident, 18, 19))],
    'stdnum.es.referenciacatastral': [('calc_check_digits', last(2))],
    'stdnum.eu.at_02': [('calc_check_digits', at(ident, 2, 3))],
    'stdnum.fr.nif': [('calc_check_digits', guard(lambda v: len(v) == 13, at(ident, 10, 11, 12)))],
    'stdnum.fr.nir': [('calc_check_digits', last(2))],
    'stdnum.gb.upn': [('calc_check_digit', first(1))],
    'stdnum.gb.utr': [('calc_check_digit', first(1))],
    'stdnum.iban': [('calc_check_digits', at(ident, 2, 3), {'kw': {'check_country': False}})],
    'stdnum.pl.regon': [('calc_check_digit', guard(lambda v: len(v) == 9, last(1))),
                        ('calc_check_digit', guard(lambda v: len(v) == 14, last(1)), {'two_check': True})],
    'stdnum.ie.vat': [('calc_check_digit', guard(lambda v: isd(v[:7]), at(lambda v: v[:7] + v[8:], 7))),
                      ('calc_check_digit', guard(lambda v: not isd(v[:7]), at(lambda v: v[2:7] + v[0], 7)))],
    'stdnum.it.codicefiscale': [('calc_check_digit', guard(lambda v: len(v) == 16, last(1)))],
    'stdnum.jp.cn': [('calc_check_digit', first(1))],
    'stdnum.lv.pvn': [('calc_check_digit_pers', guard(lambda v: len(v) == 11 and v[0] <= '3', last(1)))],
    'stdnum.meid': [('calc_check_digit', guard(lambda v: len(v) in (15, 19), last(1)), {'kw': {'strip_check_digit': False}})],
    'stdnum.mx.curp': [('calc_check_digit', full_last(1))],
    'stdnum.mx.rfc': [('calc_check_digit', guard(lambda v: len(v) in (12, 13), last(1)), {'kw': {'validate_check_digits': True}})],
    'stdnum.no.fodselsnummer': [('calc_check_digit1', at(ident, 9)), ('calc_check_digit2', at(ident, 10))],
    'stdnum.pe.cui': [('calc_check_digits', guard(lambda v: len(v) == 9, at(ident, 8)), {'alternatives': True})],
    'stdnum.ru.inn': [('calc_company_check_digit', guard(lambda v: len(v) == 10, full_last(1))),
                      ('calc_personal_check_digits', guard(lambda v: len(v) == 12, full_last(2)))],
    'stdnum.ru.ogrn': [('calc_check_digit', full_last(1))],
    'stdnum.sg.uen': [('calc_business_check_digit', guard(lambda v: len(v) == 9, full_last(1))),
                      ('calc_local_company_check_digit', guard(lambda v: len(v) == 10 and isd(v[:9]), full_last(1))),
                      ('calc_other_check_digit', guard(lambda v: len(v) == 10 and v[0] in 'RST', full_last(1)))],
    'stdnum.si.maticna': [('calc_check_digit', at(ident, 6))],
    'stdnum.vn.mst': [('calc_check_digit', at(ident, 9))],
    'stdnum.tw.ubn': [],  # calc_checksum is not a check digit generator
    'stdnum.br.cnpj': [('calc_check_digits', last(2))],
    'stdnum.lu.tva': [('calc_check_digits', last(2))],
    'stdnum.tr.tckimlik': [('calc_check_digits', last(2))],
    'stdnum.iso7064.mod_97_10': [('calc_check_digits', last(2))],
}


def rows(name, module):
    if name in TABLE:
        out = []
        for r in TABLE[name]:
            out.append((r[0], r[1], r[2] if len(r) > 2 else {}))
        return out
    out = []

    def own(fn):
        f = getattr(module, fn, None)
        return f is not None and getattr(f, '__module__', None) == name
    if own('calc_check_digit'):
        out.append(('calc_check_digit', last(1), {}))
    elif own('calc_check_digits'):
        out.append(('calc_check_digits', last(2), {}))
    return out
