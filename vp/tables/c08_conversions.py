"""C08: conversion relations (closed list from the statement of C08) with the identity each must preserve.

Row: dict(src=module, name, conv=lambda m, x -> result, tgt=module name the result must be valid in,
          ident=lambda v, r -> bool  (v canonical source, r canonical result in the target),
          inv=optional lambda mods, r -> source-form string that must equal v (up to compact),
          guard=optional lambda v -> bool, may_reject=optional lambda v -> bool (docstring allows a ValidationError))."""


def M(mods, name):
    return mods['stdnum.' + name]


def rows(mods):
    R = []

    def row(**k):
        R.append(k)
    isbn = M(mods, 'isbn')
    row(src='isbn', name='to_isbn13', conv=lambda m, x: m.to_isbn13(x), tgt='isbn', guard=lambda v: len(v) == 10,
        ident=lambda v, r: len(r) == 13 and r[:3] == '978' and r[3:12] == v[:9],
        inv=lambda mods, r: isbn.to_isbn10(r))
    row(src='isbn', name='to_isbn13(13)', conv=lambda m, x: m.to_isbn13(x), tgt='isbn', guard=lambda v: len(v) == 13,
        ident=lambda v, r: r == v)
    row(src='isbn', name='to_isbn10', conv=lambda m, x: m.to_isbn10(x), tgt='isbn', guard=lambda v: len(v) == 13,
        ident=lambda v, r: len(r) == 10 and r[:9] == v[3:12], inv=lambda mods, r: isbn.to_isbn13(r),
        may_reject=lambda v: not v.startswith('978'))
    row(src='isbn', name='validate(convert)', conv=lambda m, x: m.validate(x, convert=True), tgt='isbn',
        ident=lambda v, r: len(r) == 13 and r[3:12] == (v[:9] if len(v) == 10 else v[3:12]))
    row(src='isbn', name='format(convert)', conv=lambda m, x: m.format(x, convert=True), tgt='isbn',
        ident=lambda v, r: len(r) == 13 and r[3:12] == (v[:9] if len(v) == 10 else v[3:12]))
    row(src='isbn', name='compact(convert)', conv=lambda m, x: m.compact(x, convert=True), tgt='isbn',
        ident=lambda v, r: len(r) == 13 and r[3:12] == (v[:9] if len(v) == 10 else v[3:12]))
    row(src='ismn', name='to_ismn13', conv=lambda m, x: m.to_ismn13(x), tgt='ismn',
        ident=lambda v, r: len(r) == 13 and r[:4] == '9790' and r[4:12] == (v[1:9] if len(v) == 10 else v[4:12]))
    for ic in ('00', '01', '99'):
        row(src='issn', name='to_ean(%s)' % ic, conv=lambda m, x, ic=ic: m.to_ean(x, ic), tgt='ean',
            ident=lambda v, r, ic=ic: len(r) == 13 and r[:3] == '977' and r[3:10] == v[:7] and r[10:12] == ic)
    row(src='cusip', name='to_isin', conv=lambda m, x: m.to_isin(x), tgt='isin',
        ident=lambda v, r: r[:2] == 'US' and r[2:11] == v)
    row(src='gb.sedol', name='to_isin', conv=lambda m, x: m.to_isin(x), tgt='isin',
        ident=lambda v, r: r[:4] == 'GB00' and r[4:11] == v)
    row(src='de.wkn', name='to_isin', conv=lambda m, x: m.to_isin(x), tgt='isin',
        ident=lambda v, r: r[:5] == 'DE000' and r[5:11] == v)
    row(src='es.ccc', name='to_iban', conv=lambda m, x: m.to_iban(x), tgt='es.iban', also=('iban',),
        ident=lambda v, r: r[:2] == 'ES' and r[4:] == v, inv=lambda mods, r: M(mods, 'es.iban').to_ccc(r))
    row(src='no.kontonr', name='to_iban', conv=lambda m, x: m.to_iban(x), tgt='no.iban', also=('iban',),
        ident=lambda v, r: r[:2] == 'NO' and r[4:].lstrip('0') == v.lstrip('0'),
        inv=lambda mods, r: M(mods, 'no.iban').to_kontonr(r), inv_eq=lambda v, b: b.lstrip('0') == v.lstrip('0'))
    row(src='au.acn', name='to_abn', conv=lambda m, x: m.to_abn(x), tgt='au.abn', ident=lambda v, r: r[2:] == v)
    row(src='fr.siret', name='to_siren', conv=lambda m, x: m.to_siren(x), tgt='fr.siren', ident=lambda v, r: r == v[:9])
    row(src='fr.siret', name='to_tva', conv=lambda m, x: m.to_tva(x), tgt='fr.tva', ident=lambda v, r: r[-9:] == v[:9])
    row(src='fr.siren', name='to_tva', conv=lambda m, x: m.to_tva(x), tgt='fr.tva', ident=lambda v, r: r[-9:] == v)
    row(src='pe.cui', name='to_ruc', conv=lambda m, x: m.to_ruc(x), tgt='pe.ruc',
        ident=lambda v, r: r[:2] == '10' and r[2:10] == v[:8], inv=lambda mods, r: M(mods, 'pe.ruc').to_dni(r),
        inv_eq=lambda v, b: b == v[:8])
    # only numbers of natural persons (prefix 10) have a DNI: other RUCs may be refused, and what is returned converts back
    row(src='pe.ruc', name='to_dni', conv=lambda m, x: m.to_dni(x), tgt='pe.cui', may_reject=lambda v: not v.startswith('10'),
        ident=lambda v, r: r[:8] == v[2:10], inv=lambda mods, r: M(mods, 'pe.cui').to_ruc(r))
    row(src='in_.gstin', name='to_pan', conv=lambda m, x: m.to_pan(x), tgt='in_.pan', ident=lambda v, r: r == v[2:12])
    row(src='it.aic', name='to_base32', conv=lambda m, x: m.to_base32(x), tgt='it.aic', guard=lambda v: len(v) == 9,
        ident=lambda v, r: True, inv=lambda mods, r: M(mods, 'it.aic').from_base32(r), canon_tgt=lambda mods, r: M(mods, 'it.aic').validate(r))
    row(src='it.aic', name='from_base32', conv=lambda m, x: m.from_base32(x), tgt='it.aic', guard=lambda v: len(v) == 6,
        ident=lambda v, r: True, inv=lambda mods, r: M(mods, 'it.aic').to_base32(r))
    row(src='ie.vat', name='convert', conv=lambda m, x: m.convert(x), tgt='ie.vat',
        # the docstring promises the conversion for the old style 8 character form only; a 9 character number is returned as is
        ident=lambda v, r: (r == v) if (v[:7].isdigit() or len(v) != 8) else (len(r) == 8 and r[:7].isdigit() and r[1:6] == v[2:7] and r[6] == v[0] and r[7:] == v[7:]))
    row(src='isan', name='validate(add_check_digits)', conv=lambda m, x: m.validate(x, add_check_digits=True), tgt='isan',
        ident=lambda v, r: _isan_core(r) == _isan_core(v),
        inv=lambda mods, r: M(mods, 'isan').validate(r, strip_check_digits=True), inv_eq=lambda v, b: _isan_core(b) == _isan_core(v))
    row(src='isan', name='validate(strip_check_digits)', conv=lambda m, x: m.validate(x, strip_check_digits=True), tgt='isan',
        ident=lambda v, r: _isan_core(r) == _isan_core(v) and len(r) in (16, 24))
    row(src='isan', name='format', conv=lambda m, x: m.format(x), tgt='isan', ident=lambda v, r: _isan_core(r) == _isan_core(v))
    row(src='isan', name='to_urn', conv=lambda m, x: m.to_urn(x)[len('URN:ISAN:'):], tgt='isan', ident=lambda v, r: _isan_core(r) == _isan_core(v))
    for fmt in ('hex', 'dec'):
        row(src='meid', name='format(%s)' % fmt, conv=lambda m, x, fmt=fmt: m.format(x, format=fmt), tgt='meid',
            ident=lambda v, r: _meid_hex(r) == _meid_hex(v))
        row(src='meid', name='format(%s,add_check_digit)' % fmt,
            conv=lambda m, x, fmt=fmt: m.format(x, format=fmt, add_check_digit=True), tgt='meid',
            ident=lambda v, r: _meid_hex(r) == _meid_hex(v))
    row(src='imei', name='format(add_check_digit)', conv=lambda m, x: m.format(x, add_check_digit=True), tgt='imei',
        ident=lambda v, r: r[:14] == v[:14] and len(r) in (15, 16))
    row(src='de.stnr', name='to_country_number', conv=lambda m, x: _stnr_country(m, x), tgt='de.stnr',
        guard=lambda v: len(v) in (10, 11), ident=lambda v, r: len(r) == 13,
        inv=lambda mods, r: M(mods, 'de.stnr').to_regional_number(r), inv_eq=lambda v, b: b == v)
    row(src='de.stnr', name='to_regional_number', conv=lambda m, x: m.to_regional_number(x), tgt='de.stnr',
        guard=lambda v: len(v) == 13, ident=lambda v, r: len(r) in (10, 11),
        inv=lambda mods, r: _stnr_country(M(mods, 'de.stnr'), r, allow_many=True), inv_eq=lambda v, b: b is None or b == v)
    row(src='be.iban', name='to_bic', conv=lambda m, x: m.to_bic(x), tgt='bic', none_ok=True, ident=lambda v, r: True)
    row(src='cz.bankaccount', name='to_bic', conv=lambda m, x: m.to_bic(x), tgt='bic', none_ok=True, ident=lambda v, r: True)
    return R


def _isan_core(v):
    v = ''.join(c for c in v.upper() if c.isalnum())
    if len(v) == 26:
        return v[:16] + v[17:25]
    if len(v) == 25:
        return v[:24]
    if len(v) == 17:
        return v[:16]
    return v


def _meid_hex(v):
    v = ''.join(c for c in v.upper() if c.isalnum())
    if len(v) in (18, 19) and v[:18].isdigit():
        return '%08X%06X' % (int(v[:10]), int(v[10:18]))
    return v[:14]


def _stnr_country(m, x, allow_many=False):
    regions = m.guess_regions(x)
    if len(regions) == 1:
        return m.to_country_number(x, regions[0])
    if allow_many:
        return None
    return m.to_country_number(x, regions[0])
