"""Engine E3: automaton extraction by queries + product reachability + witness replay (DESIGN.md §1.4 / C06)."""
import collections


class Model:
    """Deterministic automaton learned from an observation function of the real code."""

    def __init__(self, alphabet, obs, step, accept):
        self.alphabet = alphabet
        self.obs = obs          # word -> hashable observation (state label)
        self.step = step        # (word, symbol) -> longer word (append or prepend)
        self.accept = accept    # observation -> bool
        self.init = 'INIT'
        self.access = {self.init: ''}
        self.delta = {}
        self.queries = 0

    def learn(self, max_states=20000):
        q = collections.deque([self.init])
        while q:
            s = q.popleft()
            for c in self.alphabet:
                w = self.step(self.access[s], c)
                t = self.obs(w)
                self.queries += 1
                self.delta[s, c] = t
                if t not in self.access:
                    if len(self.access) > max_states:
                        raise RuntimeError('automaton does not close (observation is not a state)')
                    self.access[t] = w
                    q.append(t)
        return self

    def run(self, symbols, start=None):
        s = self.init if start is None else start
        for c in symbols:
            s = self.delta[s, c]
        return s


def product(model, kind, same_kind):
    """BFS over (phase, q1, q2): two copies read the same symbols except for exactly one error
    (kind 'sub': one position with two different same-kind symbols; 'swap': two adjacent positions with
    the symbols exchanged).  Returns (witness dict, transitions, list of doubly accepting witness pairs)."""
    A = model.alphabet
    d = model.delta
    step = model.step
    start = (0, model.init, model.init)
    wit = {start: ('', '')}
    q = collections.deque([start])
    trans = 0
    bad = []
    while q:
        st = q.popleft()
        ph, a, b = st
        w1, w2 = wit[st]
        succ = []
        for c in A:
            succ.append(((ph, d[a, c], d[b, c]), step(w1, c), step(w2, c)))
        if ph == 0:
            for c in A:
                for e in A:
                    if c != e and same_kind(c, e):
                        if kind == 'sub':
                            succ.append(((1, d[a, c], d[b, e]), step(w1, c), step(w2, e)))
                        else:
                            succ.append(((1, d[d[a, c], e], d[d[b, e], c]),
                                         step(step(w1, c), e), step(step(w2, e), c)))
        for t, x1, x2 in succ:
            trans += 1
            if t not in wit:
                wit[t] = (x1, x2)
                q.append(t)
                if t[0] == 1 and model.accept(t[1]) and model.accept(t[2]):
                    bad.append((x1, x2, t))
    return wit, trans, bad


def vectors(model, check_alphabet):
    """Right-to-left schemes: the check symbol is read first.  BFS over the vectors
    (state after reading c then the payload read so far)_c; returns {vector: witness payload}."""
    A = model.alphabet
    d = model.delta
    start = tuple(d[model.init, c] for c in check_alphabet)
    seen = {start: ''}
    q = collections.deque([start])
    trans = 0
    while q:
        v = q.popleft()
        for c in A:
            t = tuple(d[s, c] for s in v)
            trans += 1
            if t not in seen:
                seen[t] = model.step(seen[v], c)
                q.append(t)
    return seen, trans
