"""Confirm a seeded change and run checks against it (never touches /repo).

  python -m vp.tools.seedtest <src_dir> <k> <property> [CHECK ...]

<src_dir>/_out/m<k>.diff, m<k>_demo.py, m<k>.txt as produced by a sub-agent.  A scratch worktree of /repo HEAD
is created under /tmp, the diff applied, the pinned test suite and the demo run, then each CHECK is run with
VP_REPO_ROOT pointing at the worktree.  Results are written to /verif/seeded/<property>-m<k>/meta.json."""
import os
import sys
import json
import shutil
import subprocess

VERIF = os.path.dirname(os.path.dirname(os.path.dirname(os.path.abspath(__file__))))


def sh(cmd, cwd=None, env=None, timeout=3600):
    p = subprocess.run(cmd, shell=True, cwd=cwd, env=env, capture_output=True, text=True, timeout=timeout)
    return p.returncode, p.stdout + p.stderr


PER_MODULE = ('C01', 'C02', 'C03', 'C04', 'C05', 'C12', 'C15', 'C17')


def plan_filter(diff):
    """For the bookkeeping sweep: when a change only touches format modules, the per-module checks are run on the work
    items of those modules and of the modules that import them ('' = no restriction)."""
    import re
    files = re.findall(r'^diff --git a/(\S+) b/', open(diff, encoding='utf-8').read(), re.M)
    names = set()
    for f in files:
        m = re.match(r'^stdnum/((?:[a-z_0-9]+/)?[a-z_0-9]+)\.py$', f)
        if f.startswith('tests/'):
            continue
        if not m or m.group(1) in ('util', 'numdb', 'exceptions', '__init__') or m.group(1).endswith('__init__'):
            return ''
        names.add('stdnum.' + m.group(1).replace('/', '.'))
    if not names:
        return ''
    # modules that import a touched module (one level)
    rc, o = sh("grep -rlE 'from stdnum(\\.[a-z_0-9]+)* import|import stdnum' /repo/stdnum --include=*.py")
    for path in o.split():
        try:
            txt = open(path, encoding='utf-8').read()
        except OSError:
            continue
        for nm in list(names):
            pkg, _, mod = nm.rpartition('.')
            if re.search(r'from %s import [^\n]*\b%s\b' % (re.escape(pkg), re.escape(mod)), txt) or ('import ' + nm) in txt:
                names.add('stdnum.' + path[len('/repo/stdnum/'):-3].replace('/', '.'))
    return ','.join(sorted(names))


def main(a):
    fast = False
    old = {}
    if a[0] == '--fast':
        fast = True
        a = a[1:]
    if a[0] == '--recheck':
        # re-run checks against a change already stored under seeded/<id>/
        sid = a[1]
        d0 = os.path.join(VERIF, 'seeded', sid)
        old = json.load(open(os.path.join(d0, 'meta.json')))
        prop = old['property']
        checks = a[2:] or [prop]
        diff, demo, note = os.path.join(d0, 'patch.diff'), os.path.join(d0, 'demo.py'), os.path.join(d0, 'what.txt')
        if not os.path.exists(note):
            with open(note, 'w') as f:
                f.write(old.get('what', ''))
    else:
        src, k, prop = a[0], a[1], a[2]
        checks = a[3:] or [prop]
        out = os.path.join(src, '_out')
        diff = os.path.join(out, 'm%s.diff' % k)
        demo = os.path.join(out, 'm%s_demo.py' % k)
        note = os.path.join(out, 'm%s.txt' % k)
        sid = '%s-%sm%s' % (prop, 'w2' if '/sb-' in src else 'w3' if '/sc-' in src else 'w4' if '/sd-' in src else 'w5' if '/se-' in src else 'w6' if '/sf-' in src else '', k)
    wt = '/tmp/vp-seed-%s' % sid
    sh('git -C /repo worktree remove --force %s' % wt)
    rc, o = sh('git -C /repo worktree add -q %s HEAD' % wt)
    if rc:
        print(o)
        return 2
    meta = {'id': sid, 'property': prop, 'source': 'independent sub-agent given only the property text',
            'ran': []}
    try:
        env = dict(os.environ, PYTHONPATH=wt, PYTHONDONTWRITEBYTECODE='1')
        # demonstrations may name their author's worktree: point them at this scratch worktree
        import re as _re
        txt = open(demo, encoding='utf-8').read()
        txt2 = _re.sub(r'/tmp/s[a-f]-C[0-9]+', wt, txt)
        # ... or locate the tree relative to their own file (<tree>/_out/demo.py): run a copy from <wt>/_out/
        os.makedirs(os.path.join(wt, '_out'), exist_ok=True)
        demo_run = os.path.join(wt, '_out', os.path.basename(demo))
        open(demo_run, 'w', encoding='utf-8').write(txt2)
        rc0, o0 = sh('/venv/bin/python %s' % demo_run, cwd=wt, env=env)
        meta['demo_on_clean_tree_exit'] = rc0
        rc, o = sh('git apply %s' % diff, cwd=wt)
        if rc:
            rc, o = sh('git apply --3way %s' % diff, cwd=wt)
        if rc:
            print('diff does not apply:', o)
            meta['applies'] = False
            return 2
        meta['applies'] = True
        if fast and old.get('tests_pass'):
            meta['tests'], meta['tests_pass'] = old.get('tests', ''), True      # confirmed when the change was stored
        else:
            rc, o = sh('/venv/bin/python -m pytest -q -p no:cacheprovider --timeout=900 2>&1 | tail -3', cwd=wt)
            meta['tests'] = o.strip().splitlines()[-1] if o.strip() else ''
            meta['tests_pass'] = '385 passed' in o
        rc1, o1 = sh('/venv/bin/python %s' % demo_run, cwd=wt, env=env)
        meta['demo_with_change_exit'] = rc1
        meta['demo_output'] = o1.strip()[-600:]
        meta['confirmed'] = bool(meta['tests_pass'] and rc1 != 0 and rc0 == 0)
        det = {}
        flt = plan_filter(diff) if fast else ''
        for c in checks:
            cenv = dict(os.environ, VP_REPO_ROOT=wt, VP_CONFIRM='2', VP_EVIDENCE_DIR=wt + '.evidence', VP_REPLAY_DIR=wt + '.replays')
            cenv.pop('PYTHONPATH', None)
            if flt and c.split(':')[0] in PER_MODULE:
                cenv['VP_PLAN_FILTER'] = flt
            tier = 'quick'
            if ':' in c:
                c, tier = c.split(':')
            rc, o = sh('./check %s --tier %s' % (c, tier), cwd=VERIF, env=cenv)
            lines = [l for l in o.splitlines() if l.startswith('  ' + c + '|')][:3]
            det[c + ':' + tier] = {'exit': rc, 'violation_lines': sum(l.startswith('VIOLATION') for l in o.splitlines()),
                                   'first': lines}
            meta['ran'].append('VP_REPO_ROOT=%s ./check %s --tier %s -> exit %d' % (wt, c, tier, rc))
            print(sid, c, tier, 'exit', rc, (lines[0][:200] if lines else o.strip().splitlines()[-1][:200]))
        meta['detected_by'] = sorted(c for c, d in det.items() if d['exit'] == 1)
        meta['checks'] = det
        meta['what'] = open(note).read().strip() if os.path.exists(note) else ''
        meta['needs_to_manifest'] = meta['what']
        d = os.path.join(VERIF, 'seeded', sid)
        os.makedirs(d, exist_ok=True)
        if os.path.abspath(diff) != os.path.abspath(os.path.join(d, 'patch.diff')):
            shutil.copy(diff, os.path.join(d, 'patch.diff'))
            shutil.copy(demo, os.path.join(d, 'demo.py'))
        # merge with existing meta (keep earlier detection records)
        mp = os.path.join(d, 'meta.json')
        if os.path.exists(mp):
            old2 = json.load(open(mp))
            oc = old2.get('checks', {})
            oc.update(det)
            meta['checks'] = oc
            meta['detected_by'] = sorted(c for c, dd in oc.items() if dd['exit'] == 1)
            meta['ran'] = (old2.get('ran', []) + meta['ran'])[-12:]
        json.dump(meta, open(mp, 'w'), indent=1)
        print(sid, 'confirmed=%s tests=%s demo clean/with=%s/%s detected_by=%s' % (
            meta['confirmed'], meta['tests_pass'], rc0, rc1, meta['detected_by']))
    finally:
        sh('git -C /repo worktree remove --force %s' % wt)
        shutil.rmtree(wt, ignore_errors=True)
        shutil.rmtree(wt + '.evidence', ignore_errors=True)
        shutil.rmtree(wt + '.replays', ignore_errors=True)
    return 0


if __name__ == '__main__':
    sys.exit(main(sys.argv[1:]))
