"""Regenerates /verif/MANIFEST.json from the table below (python3 -m vp.tools.mkmanifest)."""
import json
import os

VERIF = os.path.dirname(os.path.dirname(os.path.dirname(os.path.abspath(__file__))))

# id -> (engine, technique, level text, level note, design ref)
CHECKS = {
    'C01': ('E1', 'stateless bounded-deviation exhaustive exploration of the implementation (edit BFS over inputs x options x clock)',
            'All inputs within 1 edit (thorough: 2) of every seed over a class-complete alphabet, all short strings, '
            'synthesised states (dates, registry entries, code literals, other lengths), 20 non-string values, each non-default option '
            '(and option combination) and every clock answer of the menu are executed on '
            'the real validate()/is_valid(); the error contract is an invariant of every explored state.',
            'Inputs further than the deviation bound from every seed are not explored; corpus of seeds from docstrings/doctests.',
            'DESIGN.md 2/C01'),
    'C02': ('E1', 'stateless bounded-deviation exhaustive exploration of the implementation; fixed-point invariant on every accepted state',
            'Every accepted state of the E1 space (all inputs within 1 edit (thorough: 2) of each seed, short strings, x single '
            'non-default option) is re-validated: validate(v) == v and v has no surrounding whitespace.',
            'Only presentations within the deviation bound of a seed are explored.', 'DESIGN.md 2/C02'),
    'C03': ('E1', 'exhaustive bounded-deviation exploration with state merging by compact() image; merged states must agree',
            'All E1 states plus every character compact() removes/folds (discovered by probing, whole clean-up table) inserted at '
            'every position of seeds, rejected neighbours and garbage are merged by compact(x); all members of a class must get '
            'the same verdict and value from validate().',
            'The seven formats the statement excludes are skipped; inputs where compact() raises are not compared.', 'DESIGN.md 2/C03'),
    'C15': ('E1', 'exhaustive substitution/insertion of every behavioural class of non-ASCII numeric/letter characters at every position of valid numbers',
            'Every position of seeds x one representative of each of the behavioural classes of all Nd/No/Nl code points outside the '
            'clean-up table (thorough: every code point) and non-ASCII letter classes; invariant: accepted result is ASCII.',
            'Quick tier relies on behavioural-class equivalence of characters (class key listed in the evidence assumptions).', 'DESIGN.md 2/C15'),
    'C05': ('E2', 'explicit-state search of the accepted-number graph + exhaustive check-position alternatives and payload neighbours, generator vs validator on the implementation',
            'For every generator row of the shape table and every valid number reached by E2: generated check == present check, every '
            'other check-alphabet character at each check position is rejected, and every single-substitution payload neighbour '
            'completed with the generated check is never rejected with InvalidChecksum.',
            'Shape table (payload slice / check positions per generator) is hand-written from docstrings; where validate() calls the '
            'generator itself a wrong generator is only visible through clause (ii) (see C07/C17).', 'DESIGN.md 2/C05'),
    'C17': ('E2', 'explicit-state search of the accepted-number graph + exhaustive single-substitution / adjacent-transposition neighbourhood on the implementation',
            'The complete single-error neighbourhood (every position of the protected span x every other same-class character; every '
            'adjacent transposition where promised) of every valid number reached by E2 is executed on is_valid(); none may be accepted.',
            'Valid numbers reachable within E2 depth 1 (thorough 2) of the seeds; module/span table from the statement.', 'DESIGN.md 2/C17'),
    'C04': ('E1', 'bounded-deviation exploration of accepted presentations + accepted-number graph x format options; format/validate round trip on the implementation',
            'Every accepted E1 state and E2 valid number of each module with format() x each single non-default format option: '
            'format(x) does not raise, validate(format(x)) equals validate(x) up to the documented normalisation, and '
            'format(x) == format(validate(x)).',
            'Normalisers for ISMN/ISAN/ISIL/MEID/IMEI/ISBN(convert) are hand-written from the statement.', 'DESIGN.md 2/C04'),
    'C12': ('E2', 'explicit-state search of the accepted-number graph x clock menu; every getter executed on every reached valid number',
            'Every discovered derived-attribute function is executed on every valid number reached by E2 (and the written seed '
            'spellings), under each clock answer for clock readers: documented kind or ValidationError, dates agree with the digits '
            'and the year/month getters, split() re-joins.',
            'Kinds by function name and date field maps are hand-written from docstrings; getter options at defaults.', 'DESIGN.md 2/C12'),
    'C06': ('E3', 'explicit-state reachability on automata extracted from the code + conformance replay of product-state witnesses against the implementation',
            'The finite automaton of each algorithm/alphabet is learned from checksum() by queries; single-substitution and '
            'adjacent-transposition products and check-digit vectors are explored completely (all lengths); every product state has '
            'a witness pair executed on the real is_valid(); short strings exhaustively and long periodic strings check conformance.',
            'Assumes the implementation carries no state besides the observation (checksum, position class); supported by the '
            'conformance runs (counted in the evidence).', 'DESIGN.md 2/C06'),
    'C10': ('E1', 'exhaustive enumeration of all well-formed registry files of a small scope x all short queries, implementation vs reference model',
            'Every registry text of the scope (line pool x file shapes incl. nesting, multi-range lines, overlaps, dedents) is read by '
            'the real numdb.read() and every query of length <=4 over {0,1,2,3} is compared with a 40-line reference of the documented '
            'semantics, also after the caller mutated returned dictionaries; plus boundary queries on every entry of the shipped files.',
            'Reference semantics = statement of C10; scope bounds listed in the evidence.', 'DESIGN.md 2/C10'),
    'C11': ('E1', 'complete enumeration of the finite registry contents: strict grammar, reachability through the real lookup, consumer witnesses',
            'Every non-comment line of the 17 shipped registries is linted by an independent strict grammar, every entry endpoint is '
            'looked up through the real numdb, and every entry is pushed through its consumer (IBAN structures, GS1 AIs, ISBN '
            'hyphenation, bank/location/office info()).',
            'Quick tier samples every 4th oui.dat consumer witness (lint and reachability are complete in both tiers).', 'DESIGN.md 2/C11'),
    'C07': ('E1', 'implementation vs reference model over exhaustively enumerated bounded input spaces',
            'For the 19 listed formats validate() is compared with an independently written reference on complete payload spaces '
            '(all 10^6 IMO bodies x all check digits; strided/complete for ISSN, EAN-8, SEDOL, CAS), every E1 state, all short '
            'strings over the format alphabet and the full single-substitution neighbourhood of E2 valid numbers.',
            'References in vp/refs/standards.py; ISIN/ISRC country lists and FIGI excluded prefixes taken from the pinned tree as '
            'registry tables; clean-up-table characters are outside this input space (C14).', 'DESIGN.md 2/C07'),
    'C08': ('E2', 'explicit-state search of the accepted-number graph x presentation variants; every conversion relation executed on every reached number',
            'Every conversion of the closed list in the statement is executed on every valid source number reached by E2 (plus length '
            'variants and the 7-digit Norwegian account space) in several spellings: result valid in the target, identity projection '
            'preserved, paired conversions undo each other, spellings agree.',
            'Relation table with identity projections is hand-written from the statement and docstrings.', 'DESIGN.md 2/C08'),
    'C09': ('E2', 'explicit-state search of constituents\' accepted numbers + exhaustive single-edit neighbours x prefix variants; wrapper vs constituent on the same input',
            'For every (wrapper, constituent) relation every valid constituent number, all its single-edit neighbours and prefix/case '
            'variants (29 x 29 EU codes) are given to both sides: dispatch equivalence with prefixed result, union equivalence, '
            'superset/wrapping implications, guessers list exactly the accepting constituents.',
            'The 29 EU codes and the module each names are written out in the check (not read from MEMBER_STATES).', 'DESIGN.md 2/C09'),
    'C14': ('E1', 'complete enumeration of all 1,114,112 code points and of bounded strings x all deletechars subsets against the Unicode database; all look-alike substitutions on valid numbers',
            'clean() is run on every code point and judged from unicodedata only; all strings of length <=2 over every changed '
            'character x 256 deletechars subsets; every look-alike of every character of seeds substituted in every module.',
            'Modifier letters becoming an apostrophe and the grave accent fold are permitted by the statement.', 'DESIGN.md 2/C14'),
    'C16': ('E1', 'exhaustive enumeration of element strings (every AI x format witnesses x AI pairs x separator x parentheses); decode/validate/encode round trips',
            'Every registered AI with witness values of its declared format, alone and in all ordered pairs of format classes, with '
            'each separator and parentheses setting: info(validate(x)) == info(x), validate fixed point, info(encode(info(x))) == info(x).',
            'Witness values are generated from the GS1 format notation (vp/refs/gs1_witness.py).', 'DESIGN.md 2/C16'),
    'C13': ('E4', 'explicit-state exploration of call histories on fresh library states + preemption-bounded exhaustive thread-schedule exploration under a controlled scheduler, on the real code',
            'All histories of length <=2 over a focus menu with colliding cache keys/registry names (with and without in-place mutation '
            'of the previous result), call/mutate/call for every container-returning function, ordered module pairs, clock-advance '
            'histories; two threads racing on first use of every cache (all interleavings at line granularity up to 2 preemptions) and '
            'on module import (1 preemption); per module: same-function and cross-function histories on documented numbers and near '
            'misses, option-order histories incl. failing calls, batteries run twice and against a freshly loaded module, registry '
            'sibling pairs; first-use, steady-state and full-working-set two-thread schedules of every function that still changes '
            'module-level state (line granularity <=2 preemptions, bytecode granularity 1 preemption); container-returning calls under '
            'hash seeds 0-3 in fresh interpreters; every observation equals the pristine observation.',
            'Fresh interpreter modelled by purging stdnum modules (cross-checked against real subprocesses); 2 threads (3 in one thorough '
            'harness); scheduling points in the cache functions / module top-level code / the functions naming the state that changed; '
            'the clock seam is process-wide during a history.', 'DESIGN.md 2/C13, 8.4-8.7'),
    'C18': ('E4', 'exhaustive enumeration of requests and request histories / first-request schedules on the real WSGI callable',
            'Both modes x query-string classes x every seed of every module x hostile single edits x markup marker splices; each focus '
            'request fresh and after every other focus request; two first requests under the scheduler; status 200, exact format list '
            '(independent module walk), escaped echo, no injected markup, history independence.',
            'The template\'s unclosed script elements are parsed as ordinary elements.', 'DESIGN.md 2/C18'),
}

NOT_YET = {}


def main():
    props = [json.loads(l) for l in open(os.path.join(VERIF, 'properties.jsonl'))]
    checks = []
    na = []
    for p in props:
        pid = p['id']
        if pid in CHECKS:
            eng, tech, text, note, ref = CHECKS[pid]
            checks.append({
                'property_id': pid,
                'quick_cmd': './check %s --tier quick' % pid,
                'thorough_cmd': './check %s --tier thorough' % pid,
                'evidence_file': 'evidence/%s.json' % pid,
                'replay_cmd_template': './check %s --replay {path}' % pid,
                'engine': eng,
                'level_claimed': {'category': 'model_checking', 'text': text, 'design_ref': ref},
                'level_note': note,
                'technique': tech,
            })
        else:
            na.append({'property_id': pid, 'reason': NOT_YET.get(pid, 'check not built yet in this revision of /verif (planned: see DESIGN.md section 2); not claimed until it exists')})
    man = {
        'version': 1,
        'setup_cmd': 'true',
        'hooks': {
            'guard': 'STDNUM_VERIF',
            'enable': 'no source hooks are needed: clock, scheduler and registry seams are harness-side monkeypatches applied by ./check at run time',
            'baseline_off_cmd': 'cd /repo && /venv/bin/python -m pytest -ra -q -p no:cacheprovider --timeout=900 --continue-on-collection-errors',
            'source_commits': [],
            'add_only': True,
        },
        'engines': [
            {'name': 'E1', 'path': 'vp/e1.py', 'serves_properties': ['C01', 'C02', 'C03', 'C04', 'C14', 'C15', 'C18'],
             'kind_free_text': 'bounded-deviation (edit-distance) breadth-first input explorer over a class-complete alphabet, run on the real code'},
            {'name': 'E2', 'path': 'vp/e2.py', 'serves_properties': ['C04', 'C05', 'C08', 'C09', 'C12', 'C17'],
             'kind_free_text': 'explicit-state search in the graph of accepted numbers (same-class substitutions + check repair)'},
            {'name': 'E3', 'path': 'vp/e3.py', 'serves_properties': ['C06'],
             'kind_free_text': 'automaton extraction from the code by queries + product-automaton reachability + witness replay'},
            {'name': 'E4', 'path': 'vp/e4.py', 'serves_properties': ['C13', 'C18'],
             'kind_free_text': 'history BFS with canonical state hashing and preemption-bounded thread schedule exploration (sys.settrace scheduler)'},
        ],
        'checks': checks,
        'not_applicable': na,
        'notes': 'All checks: ./check <ID> [--tier quick|thorough]; VP_REPO_ROOT overrides /repo for mutant runs only. '
                 'Known findings: known_findings.json. Seeded mutants: seeded/.',
    }
    if not na:
        del man['not_applicable']
    with open(os.path.join(VERIF, 'MANIFEST.json'), 'w') as f:
        json.dump(man, f, indent=1)
        f.write('\n')
    print('MANIFEST.json: %d checks, %d not claimed' % (len(checks), len(na)))


if __name__ == '__main__':
    main()
