#!/bin/bash
# Re-run the property's own quick check against every stored seeded change (sequentially; evidence files of /verif are
# overwritten by these runs, so re-run the checks on /repo afterwards).   usage: vp/tools/seedsweep.sh [id-glob]
cd "$(dirname "$0")/../.."
for d in seeded/${1:-*}/; do
  id=$(basename "$d")
  /venv/bin/python -m vp.tools.seedtest --recheck "$id" 2>&1 | tail -1 | cut -c1-200
done
