#!/bin/bash
# Re-run, against every stored seeded change, its property's own quick check and every check recorded as detecting it
# (sequentially, scratch worktrees under /tmp, evidence of /verif untouched).   usage: vp/tools/seedsweep.sh [id-glob]
cd "$(dirname "$0")/../.."
for d in seeded/${1:-*}/; do
  id=$(basename "$d")
  checks=$(/venv/bin/python -c "
import json,sys
m=json.load(open('seeded/$id/meta.json'))
c=[m['property']]+[x.split(':')[0] for x in m.get('detected_by',[]) if x.endswith(':quick')]
print(' '.join(dict.fromkeys(c)))")
  /venv/bin/python -m vp.tools.seedtest --fast --recheck "$id" $checks 2>&1 | tail -1 | cut -c1-200
done
