"""Regenerates the generated lists of DESIGN.md (fix commits, known findings, seeded changes) between their markers."""
import os
import re
import json
import glob

VERIF = os.path.dirname(os.path.dirname(os.path.dirname(os.path.abspath(__file__))))


def block(s, name, text):
    a, b = '<!-- BEGIN GENERATED %s -->' % name, '<!-- END GENERATED %s -->' % name
    i, j = s.index(a) + len(a), s.index(b)
    return s[:i] + '\n' + text + '\n' + s[j:]


def main():
    p = os.path.join(VERIF, 'DESIGN.md')
    s = open(p, encoding='utf-8').read()
    kf = json.load(open(os.path.join(VERIF, 'known_findings.json')))
    s = block(s, 'fixed', '\n'.join('* `%s`' % l.replace('fixed: ', '') for l in kf['fixed']))
    s = block(s, 'known', '\n'.join('* **%s** (%s, %d signature%s%s): %s' % (
        f['id'], f['property'], len(f['signatures']), 's' if len(f['signatures']) != 1 else '',
        ', regex' if any(x.startswith('re:') or '*' in x for x in f['signatures']) else '', f['what']) for f in kf['findings']))
    rows = ['| id | reported by | change (as described by its author) |', '|----|-------------|--------------------------------------|']
    for f in sorted(glob.glob(os.path.join(VERIF, 'seeded', '*', 'meta.json'))):
        m = json.load(open(f))
        w = (m.get('what') or '').replace('\n', ' ').replace('|', '/')
        w = re.sub(r'^(Change|m[0-9])\s*(\([^)]*\))?:?\s*', '', w)[:230]
        rows.append('| %s | %s | %s |' % (m['id'], ', '.join(x.split(':')[0] for x in m.get('detected_by', [])) or 'not reported', w))
    s = block(s, 'seeded', '\n'.join(rows))
    open(p, 'w', encoding='utf-8').write(s)
    print('DESIGN.md regenerated: %d fixed, %d known findings, %d seeded changes' % (len(kf['fixed']), len(kf['findings']), len(rows) - 2))


if __name__ == '__main__':
    main()
