"""Maintenance of known_findings.json (never used at check run time).

  python -m vp.tools.kf add <finding-id> <property> <sig-regex> "<what>"   collect signatures from replays/<property>/
  python -m vp.tools.kf fixed <property> <commit> "<what failed>"
"""
import re
import sys
import json
import glob
import os

VERIF = os.path.dirname(os.path.dirname(os.path.dirname(os.path.abspath(__file__))))
KF = os.path.join(VERIF, 'known_findings.json')


def main(a):
    kf = json.load(open(KF))
    if a[0] == 'add':
        fid, prop, rx, what = a[1:5]
        sigs = set()
        ex = None
        for f in sorted(glob.glob(os.path.join(VERIF, 'replays', prop, '*.json'))):
            r = json.load(open(f))
            if re.search(rx, r['sig']):
                sigs.add(r['sig'])
                if ex is None or len(json.dumps(r['case'])) < len(json.dumps(ex)):
                    ex = r['case']
        if not sigs:
            print('no signature matches')
            return 1
        cur = [f for f in kf['findings'] if f['id'] == fid]
        if cur:
            cur[0]['signatures'] = sorted(set(cur[0]['signatures']) | sigs)
            cur[0]['what'] = what
        else:
            kf['findings'].append({'id': fid, 'property': prop, 'what': what, 'signatures': sorted(sigs),
                                   'exemplar': ex})
        print('%s: %d signatures' % (fid, len(sigs)))
    elif a[0] == 'fixed':
        prop, commit, what = a[1:4]
        kf['fixed'].append('fixed: property=%s %s %s' % (prop, commit, what))
    json.dump(kf, open(KF, 'w'), indent=1)
    return 0


if __name__ == '__main__':
    sys.exit(main(sys.argv[1:]))
