"""./check <ID> [--tier quick|thorough] [--replay file] [--quiet]"""
import os
import sys
import time
import json
import importlib
import traceback

from . import core


def main(argv):
    args = list(argv)
    if not args:
        print(__doc__)
        return 2
    prop = args.pop(0).upper()
    tier = os.environ.get('VERIF_TIER', 'quick')
    replay = None
    quiet = False
    while args:
        a = args.pop(0)
        if a == '--tier':
            tier = args.pop(0)
        elif a == '--replay':
            replay = args.pop(0)
        elif a == '--quiet':
            quiet = True
        elif a in ('quick', 'thorough'):
            tier = a
        else:
            print('unknown argument', a)
            return 2
    if tier not in ('quick', 'thorough'):
        tier = 'quick'
    try:
        seed = int(os.environ.get('VERIF_SEED', '0'))
    except ValueError:
        seed = 0

    t0 = time.time()
    try:
        core.setup_path()
        core.modules()
        check = importlib.import_module('vp.checks.' + prop.lower())
    except BaseException:  # noqa: B902
        sys.stderr.write('HARNESS ERROR: cannot import the working tree / check:\n' + traceback.format_exc())
        return 2

    if replay:
        rec, vs = core.replay_file(check, replay)
        same = [v for v in vs if v['sig'] == rec['sig'] or v['sig'] is None]
        if not quiet:
            print('replay %s' % replay)
            print('  case     : %s' % core.short(json.dumps(rec['case']), 400))
            print('  recorded : %s' % core.short(rec['observed'], 300))
            for v in vs:
                print('  observed : [%s] %s' % (v['sig'], core.short(v['observed'], 300)))
            if not vs:
                print('  observed : no violation on this tree')
        if same:
            print('VIOLATION property=%s replay=%s' % (prop, replay))
            return 1
        return 0

    # replay files of earlier runs of this check are stale once it runs again
    import shutil
    shutil.rmtree(os.path.join(os.environ.get('VP_REPLAY_DIR') or os.path.join(core.VERIF, 'replays'), prop), ignore_errors=True)
    ctx = {'tier': tier, 'seed': seed}
    try:
        items = check.plan(ctx)
        flt = [f for f in os.environ.get('VP_PLAN_FILTER', '').split(',') if f]
        if flt:
            # bookkeeping runs against seeded changes only (vp/tools/seedtest.py): the work items that name the touched
            # modules; never used by the registered commands
            keep = [it for it in items if any(("'%s'" % f) in repr(it) for f in flt)]
            if keep:
                print('plan restricted to %d of %d work items (VP_PLAN_FILTER)' % (len(keep), len(items)))
                items = keep
                # a restricted run never overwrites the evidence of the full check
                os.environ.setdefault('VP_EVIDENCE_DIR', '/tmp/vp-filtered-evidence')
                os.environ.setdefault('VP_REPLAY_DIR', '/tmp/vp-filtered-replays')
        merged = core.run_pool(check, items, getattr(check, 'NPROC', None))
        if hasattr(check, 'finish'):
            check.finish(ctx, merged)
    except SystemExit:
        raise
    except BaseException:  # noqa: B902
        sys.stderr.write('HARNESS ERROR:\n' + traceback.format_exc())
        return 2

    # ---- triage
    known = core.load_known()
    by_sig = {}
    for v in merged['violations']:
        b = by_sig.get(v['sig'])
        if b is None:
            by_sig[v['sig']] = v
            v.setdefault('count', 1)
        else:
            cnt = b['count'] + v.get('count', 1)
            if tuple(v['rank']) < tuple(b['rank']):
                by_sig[v['sig']] = v
                b = v
            b['count'] = cnt
    known_seen = {}
    fresh = []
    for sig in sorted(by_sig):
        v = by_sig[sig]
        f = core.match_known(sig, prop, known)
        if f is not None:
            k = known_seen.setdefault(f['id'], {'what': f['what'], 'states': 0, 'signatures': 0})
            k['states'] += v['count']
            k['signatures'] += 1
        else:
            fresh.append(v)
    for fid in sorted(known_seen):
        print('KNOWN-FINDING: property=%s %s [%s; %d states]' % (prop, known_seen[fid]['what'], fid,
                                                                 known_seen[fid]['states']))
    rc = 0
    lines = []
    confirm_budget = int(os.environ.get('VP_CONFIRM', '6'))
    for v in fresh:
        path = core.write_replay(v)
        if confirm_budget > 0:
            confirm_budget -= 1
            ok, out = core.confirm_in_fresh_process(prop, path)
            if not ok:
                sys.stderr.write('HARNESS ERROR: violation did not reproduce from %s in a fresh process\n%s\n'
                                 % (path, out))
                return 2
        lines.append('VIOLATION property=%s replay=%s' % (prop, path))
        if len(lines) <= 40:
            print('  %s (x%d): %s | observed %s' % (v['sig'], v['count'], core.short(json.dumps(v['case']), 200),
                                                    core.short(v['observed'], 160)))
        rc = 1
    for ln in lines[:30]:
        print(ln)
    if len(lines) > 30:
        print('... and %d more violating signatures (replay files under replays/%s/)' % (len(lines) - 30, prop))
    wall = time.time() - t0
    merged['extra']['violating_signatures'] = len(fresh)
    path = core.write_evidence(check, tier, seed, merged, wall, len(fresh), known_seen)
    print('%s %s: states=%d transitions=%d impl_execs=%d nontrivial=%d violations=%d known=%d wall=%.1fs evidence=%s'
          % (prop, tier, merged['states'], merged['transitions'], merged['impl_execs'],
             merged['nontrivial'], len(fresh), len(known_seen), wall, os.path.relpath(path, core.VERIF)))
    return rc


if __name__ == '__main__':
    sys.exit(main(sys.argv[1:]))
